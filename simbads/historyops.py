"""Process-history operations (fault kind F7): what may run earlier in the same
process - other optimisations, RNG consumption/reseeding, np.seterr, logger
level, construction of other instances."""
import logging

import numpy as np


def execute(ops):
    from . import run
    out = []
    for op in ops:
        k = op["op"]
        if k == "draw":
            np.random.random(int(op["n"]))
            if op.get("normal"):
                np.random.standard_normal(int(op["normal"]))
        elif k == "reseed":
            np.random.seed(int(op["seed"]))
        elif k == "seterr":
            np.seterr(**{op.get("what", "all"): op.get("mode", "ignore")})
        elif k == "loglevel":
            logging.getLogger("BADS").setLevel(op["level"])
        elif k == "opt":
            # an unrelated optimisation with its own world; result discarded
            r = run.run_scenario(op["scn"])
            out.append(r["outcome"])
        elif k == "construct":
            from pybads import BADS
            D = int(op["D"])
            try:
                BADS(lambda x: float(np.sum(x ** 2)), np.zeros((1, D)), -np.ones((1, D)) * 5, np.ones((1, D)) * 5,
                     options=dict(op.get("options", {}), display="off"))
            except Exception as e:   # noqa
                out.append(type(e).__name__)
        else:
            raise ValueError(k)
    return out
