"""C14: poll directions. Generator workload (poll_mads_2n under an enumerable,
scheduler-owned random source) + monitoring of every poll step of full runs."""
import collections
import math
import sys
import time

import numpy as np

from . import harness, pool, runlevel
from . import world as W
from .prng import stream


class SimRandom:
    """Stands in for numpy.random inside pybads.poll.poll_mads_2n: every choice
    comes from the scheduler stream and is logged."""

    def __init__(self, rng):
        self.rng = rng
        self.log = []

    def randint(self, low, high=None, size=None):
        low, high = int(low), int(high)
        if size is None:
            v = self.rng.randrange(low, high)
            self.log.append(("i", v))
            return v
        shape = (size,) if np.isscalar(size) else tuple(size)
        n = int(np.prod(shape))
        vals = [self.rng.randrange(low, high) for _ in range(n)]
        arr = np.array(vals, dtype=int).reshape(shape)
        self.log.append(("I", shape, tuple(vals)))
        return arr

    def permutation(self, x):
        if isinstance(x, (int, np.integer)):
            p = list(range(int(x)))
            self.rng.shuffle(p)
            self.log.append(("p", tuple(p)))
            return np.array(p)
        x = np.asarray(x)
        p = list(range(x.shape[0]))
        self.rng.shuffle(p)
        self.log.append(("p", tuple(p)))
        return x[p]


def choice_tuple(log, D):
    """The part of the draws that decides the result: strict lower triangle, signs, permutation."""
    tri, signs, perm = (), (), ()
    for e in log:
        if e[0] == "I" and len(e[1]) == 2:
            a = np.array(e[2]).reshape(e[1])
            tri = tuple(int(a[i, j]) for i in range(D) for j in range(i))
        elif e[0] == "I":
            signs = e[2]
        elif e[0] == "p":
            perm = e[1]
    return (tri, signs, perm)


def space_size(D, n_max):
    return (2 * n_max - 1) ** (D * (D - 1) // 2) * 2 ** D * math.factorial(D)


def gen_batch(arg):
    seed, lo, hi = arg
    mod = sys.modules["pybads.poll.poll_mads_2n"]
    fn = mod.poll_mads_2n
    real = mod.rnd
    out = dict(n=0, problems=[], tuples=collections.defaultdict(set), samples=[])
    try:
        for i in range(lo, hi):
            rng = stream(seed, f"c14/{i}")
            D = rng.choice([1, 2, 2, 3, 3, 4])
            ratio = rng.choice([1, 1, 2, 4])
            k = rng.randrange(-12, 1)
            mesh = 2.0 ** k
            sms = mesh * ratio * (1.0 if rng.random() < 0.7 else rng.uniform(0.8, 1.2))
            ps_kind = rng.choice(["ones", "pow2", "any"])
            if ps_kind == "ones":
                ps = np.ones(D)
            elif ps_kind == "pow2":
                ps = np.array([2.0 ** rng.randrange(-6, 4) for _ in range(D)])
            else:
                ps = np.array([float(f"{10 ** rng.uniform(-3, 1.5):.6g}") for _ in range(D)])
            sr = SimRandom(rng)
            mod.rnd = sr
            case = dict(seed=seed, index=i, D=D, ratio=ratio, mesh=mesh, search_mesh=sms, poll_scale=ps.tolist())
            try:
                B = fn(D, ps, sms, mesh)
            except Exception as e:   # noqa
                out["problems"].append(("generator-raised", f"poll_mads_2n raised {type(e).__name__}: {e}", case))
                continue
            finally:
                mod.rnd = real
            out["n"] += 1
            n_max = int(max(1.0, np.round(sms / mesh)))
            out["tuples"][(D, n_max)].add(choice_tuple(sr.log, D))
            for cls, msg in W.check_poll_basis(None, B, ps, D, sms, mesh):
                out["problems"].append((cls, msg + f" (D={D}, ratio={n_max})", dict(case, choices=[list(map(str, e)) for e in sr.log])))
            if len(out["samples"]) < 1 and D == 2:
                out["samples"].append(dict(case, B=np.asarray(B).tolist(), choices=str(choice_tuple(sr.log, D))))
    finally:
        mod.rnd = real
    out["tuples"] = {k: v for k, v in out["tuples"].items()}
    return out


def replay_gen(prop, cls, case):
    mod = sys.modules["pybads.poll.poll_mads_2n"]
    real = mod.rnd
    rng = stream(case["seed"], f"c14/{case['index']}")
    # re-derive exactly as gen_batch does
    o = gen_batch((case["seed"], case["index"], case["index"] + 1))
    hit = any(c == cls for c, _, _ in o["problems"])
    return hit, dict(problems=[(c, m) for c, m, _ in o["problems"]])


def main(tier):
    seed = harness.default_seed(tier)
    n_calls = 200000 if tier == "quick" else 5000000
    per = 12500 if tier == "quick" else 100000
    tasks = [(seed, lo, min(lo + per, n_calls)) for lo in range(0, n_calls, per)]
    rep0 = harness.Report("C14", tier, seed)
    t0 = time.time()
    outs = harness.run_batch(gen_batch, tasks, timeout=1800, report=rep0)
    tuples = collections.defaultdict(set)
    n_done = 0
    gsamples = []
    gen_problems = {}
    for o in outs:
        if o is None:
            continue
        n_done += o["n"]
        for k, v in o["tuples"].items():
            tuples[k] |= v
        if len(gsamples) < 2:
            gsamples.extend(o["samples"])
        for cls, msg, case in o["problems"]:
            gen_problems.setdefault(cls, (msg, case))
    coverage = {}
    for (D, n_max), s in sorted(tuples.items()):
        coverage[f"D={D},ratio={n_max}"] = dict(reached=len(s), space=space_size(D, n_max),
                                               fraction=round(len(s) / space_size(D, n_max), 6))
    extra = dict(generator=dict(calls=n_done, calls_per_hour=int(n_done / max(time.time() - t0, 1e-9) * 3600),
                                choice_space_coverage=coverage, samples=gsamples,
                                note="the 'exhaustively for D<=3' clause is sampled; coverage per (D, mesh ratio) is measured, 1.0 means every outcome of the random choices was reached"))

    def post(rep, cases, recs, cov):
        for cls, (msg, case) in gen_problems.items():
            rep.add_violation(cls, "generator workload: " + msg, case, "c14gen")
        rep.harness_errors.extend(rep0.harness_errors)
        cov["evaluations"] = cov["evaluations"] + n_done
        cov["distinct_nontrivial"] = cov["distinct_nontrivial"] + sum(len(s) for s in tuples.values())
        cov["rule"] = ("generator: seeded direct calls of poll_mads_2n with its random source replaced by a scheduler-owned stream "
                       "(D 1-4, mesh ratio 1/2/4, random poll scales), distinct = distinct choice tuples (lower-triangle entries, signs, permutation); "
                       "runs: " + cov["rule"])
    return runlevel.main("C14", tier, extra_cov=extra, post=post)
