"""Replay a minimised violation file in a fresh process.

exit 1 + the VIOLATION line if the violation class reproduces (and, when a
digest was recorded, the event digest is identical); exit 0 if it no longer
occurs; exit 2 on harness error."""
import json
import sys

from . import env


def main(path):
    doc = json.load(open(path))
    env.import_pybads()
    from . import world, run, runlevel
    world.install_seams()
    prop, cls, kind, case = doc["property"], doc["class"], doc["kind"], doc["case"]
    if kind == "scenario":
        rec = run.run_scenario(case)
        hit = runlevel.judge_for(prop, cls)(rec)
        dg = (doc.get("minimisation") or {}).get("digest")
        print(f"replay: outcome={rec['outcome']} digest={rec['digest']} recorded_digest={dg}")
        for v in rec["violations"]:
            print(f"  seen {v['prop']}/{v['cls']}: {v['msg']}")
        if rec.get("exc"):
            print("  exception:", rec["exc"]["type"], rec["exc"]["frame"], rec["exc"]["msg"][:200])
        if hit:
            if dg and dg != rec["digest"]:
                print("  note: violation reproduced but the event digest differs (code changed since recording?)")
            print(f"VIOLATION property={prop} replay={path}")
            return 1
        return 0
    from . import registry
    fn = registry.REPLAYERS.get(kind)
    if fn is None:
        print(f"HARNESS-ERROR unknown replay kind {kind}")
        return 2
    hit, info = fn(prop, cls, case)
    print("replay:", info)
    if hit:
        print(f"VIOLATION property={prop} replay={path}")
        return 1
    return 0
