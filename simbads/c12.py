"""C12: the evaluation log against a reference model, over operation histories
(log machine) and over the logs of full runs."""
import collections
import json
import time

from . import harness, logmachine, pool, run, runlevel, gen


def main(tier, prop="C12"):
    seed = harness.default_seed(tier)
    rep = harness.Report(prop, tier, seed)
    n_hist = 20000 if tier == "quick" else 1500000
    per = 500 if tier == "quick" else 5000
    tasks = [(seed, lo, min(lo + per, n_hist)) for lo in range(0, n_hist, per)]
    t0 = time.time()
    outs = harness.run_batch(logmachine.run_batch, tasks, timeout=900 if tier == "quick" else 3600, report=rep)
    stats = collections.Counter()
    shapes, states = set(), set()
    n_done = 0
    samples = []
    found = {}
    for o in outs:
        if o is None:
            continue
        n_done += o["n"]
        for k, v in o["stats"].items():
            stats[k] += v
        shapes.update(map(str, o["shapes"]))
        states.update(map(str, o["states"]))
        if len(samples) < 2:
            samples.extend(o["samples"])
        for i, h, probs in o["problems"]:
            for p, c, m, opi in probs:
                if p == prop:
                    key = (p, c)
                    if key not in found or len(h["ops"]) < len(found[key][0]["ops"]):
                        found[key] = (h, m, i, opi)
    for (p, c), (h, m, i, opi) in found.items():
        rep.add_violation(c, f"history #{i}, operation {opi}: {m}", h, "loghistory")
    # second generator (Hypothesis strategies, same executor; shrinks to a minimal history)
    n_hyp = 8 if tier == "quick" else 32
    hres = harness.run_batch(logmachine.run_hypothesis, [(seed * 1000 + j, 200 if tier == "quick" else 1500, (prop,)) for j in range(n_hyp)],
                             timeout=3600, report=rep)
    hyp_examples = 0
    for o in hres:
        if o is None:
            continue
        hyp_examples += o["stats"]["examples"]
        for h, bad in o["failures"]:
            for p, c, m, opi in bad:
                rep.add_violation(c, f"hypothesis-generated history (seed {o['seed']}), operation {opi}: {m}", h, "loghistory")
    # run-level part: the log of full runs vs the call log
    extra = {}
    if prop == "C12":
        n_runs = 48 if tier == "quick" else 1500
        prof = dict(name="c12", noise_w=[3, 1, 3, 5], knobs=dict(cache_size=0.8, noise_final_samples=0.5), fam_w=[6, 2, 2, 0, 1, 1, 1],
                    budget_kinds=["small", "mid"], where_w=[2, 2, 4, 3])
        cases = [gen.make_scenario(seed, prof, i) for i in range(n_runs)]
        recs = harness.run_batch(run.run_scenario, cases, timeout=300, report=rep)
        oc = collections.Counter()
        merges = 0
        for scn, r in zip(cases, recs):
            if r is None:
                continue
            oc[r["outcome"]] += 1
            for v in r["violations"]:
                if v["prop"] == "C12":
                    rep.add_violation(v["cls"], v["msg"] + " " + json.dumps(v["detail"], default=str)[:300], scn, "scenario")
        extra = dict(full_runs=dict(n=len(cases), outcomes=dict(oc), rule="log of BADS.function_logger after the run vs the target stub's call log (counts, values, specified-noise merges)"))
    wall = time.time() - t0
    cov = dict(
        evaluations=n_done + (extra.get("full_runs", {}).get("n", 0)),
        distinct_nontrivial=len(shapes),
        rule="seeded operation histories (1-40 ops: call new/repeat/partially-coinciding point with record on/off, add, failing call, filter) on a real FunctionLogger, D 1-4, cache_size 1-8, noise level 0/1/2, no/linear/log/mixed transform; distinct = distinct abstract history shapes (D, level, transform, cache bucket, set of op kinds); whole log compared with the reference model after every operation",
        histories=n_done, operations=stats.get("ops", 0), op_stats=dict(stats),
        hypothesis_generator=dict(prng_values=n_hyp, examples=hyp_examples, note="hypothesis strategies feed the same executor; one process per PRNG value, example database off"),
        distinct_log_states=dict(count=len(states), measure="(noise level, #records, merged?, #growths, no-record hit?)"),
        histories_per_hour=int(n_done / max(wall, 1e-9) * 3600),
        fault_fired={"failing target call (log must be unchanged)": stats.get("faults", 0)},
        components=dict(real=["pybads.function_logger.FunctionLogger", "contraints_check", "VariableTransformer", "Timer"],
                        stub=["target", "clock"], fault_shims=["target returns invalid value / raises"]),
        **extra,
    )
    return rep.finish(cov, ["the reference model (RefLogger) transcribes the merge rule of the property statement",
                            "original-space coordinates are computed with the repository's own VariableTransformer (C11 is not claimed)",
                            "evaluation-time fields are not part of the statement and are only checked for not changing on unrelated records"],
                      shrink_fn=_shrink, samples=samples)


def _shrink(prop, cls, kind, case):
    if kind == "loghistory":
        return logmachine.shrink_history(case, prop, cls)
    if kind == "scenario":
        return runlevel.shrink_case(prop, cls, kind, case)
    return case, {}
