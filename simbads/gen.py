"""Swarm scenario generator: (seed, profile, index) -> explicit scenario.

Every scenario first draws *which* dimensions vary (geometry class, noise mode,
which knobs are overridden, which faults are enabled, clock behaviour) and only
then the values. Profiles bias the distribution, never fix it.
"""
import math

from .prng import stream, subseed

INF = float("inf")


def _r(x, nd=6):
    """Round to nd significant digits (canonical numbers in scenarios)."""
    if x == 0 or not math.isfinite(x):
        return x
    return float(f"{x:.{nd}g}")


def _choice(rng, items, weights=None):
    if weights is None:
        return items[rng.randrange(len(items))]
    t = rng.random() * sum(weights)
    for it, wt in zip(items, weights):
        t -= wt
        if t <= 0:
            return it
    return items[-1]


# ---------------------------------------------------------------------------
# geometry
# ---------------------------------------------------------------------------

def gen_geometry(rng, D, cls):
    """Returns dict lb, ub, plb, pub (lists or None) + per-coordinate info."""
    lb, ub, plb, pub, islog = [], [], [], [], []
    if cls == "unbounded":
        for _ in range(D):
            m = _r(rng.uniform(-20, 20), 3)
            h = _r(10 ** rng.uniform(-1, 1.5), 3)
            plb.append(_r(m - h))
            pub.append(_r(m + h))
            islog.append(False)
        return dict(lb=None, ub=None, plb=plb, pub=pub, islog=islog, cls=cls)
    for i in range(D):
        c = cls
        if cls == "mixedlog":
            c = "log" if (i % 2 == 0) == (rng.random() < 0.8) else "asym"
        if c == "sym":
            L = _r(10 ** rng.uniform(0, 2.5), 3)
            P = _r(L * rng.uniform(0.05, 1.0), 3)
            lb.append(-L); ub.append(L); plb.append(-P); pub.append(P); islog.append(False)
        elif c == "asym":
            m = _r(rng.uniform(-50, 50), 3)
            h = _r(10 ** rng.uniform(-2, 3), 3)
            a, b = m - h * rng.uniform(0.2, 1), m + h * rng.uniform(0.2, 1)
            pa = a + (b - a) * rng.uniform(0.0, 0.4)
            pb = b - (b - a) * rng.uniform(0.0, 0.4)
            lb.append(_r(a)); ub.append(_r(b)); plb.append(_r(pa)); pub.append(_r(pb)); islog.append(False)
        elif c == "aligned":
            # "ordinary decimal" bounds whose internal image lies exactly on the search mesh:
            # mu = s/10, gamma = t/10 (not exactly representable), lb = mu - a*gamma with a dyadic.
            # Candidates projected onto such a bound map back through an inexact round trip.
            t_ = rng.randrange(1, 60)
            s_ = rng.randrange(-80, 80)
            den = rng.choice([10.0, 10.0, 100.0, 1.0])
            a_ = 1 + rng.randrange(0, 9) / rng.choice([2, 4, 8])
            b_ = 1 + rng.randrange(0, 9) / rng.choice([2, 4, 8])
            if rng.random() < 0.35:
                # hard bound a hair *inside* the mesh node (within ~1e-5 relative): a poll step lands just outside it
                a_ -= 10 ** rng.uniform(-7, -4.9)
                b_ -= 10 ** rng.uniform(-7, -4.9)
            lb.append(_r((s_ - a_ * t_) / den, 15)); ub.append(_r((s_ + b_ * t_) / den, 15))
            plb.append(_r((s_ - t_) / den, 12)); pub.append(_r((s_ + t_) / den, 12)); islog.append(False)
        elif c == "tight":
            m = _r(rng.uniform(-10, 10), 3)
            h = _r(10 ** rng.uniform(-1, 2), 3)
            lb.append(_r(m - h)); ub.append(_r(m + h)); plb.append(_r(m - h)); pub.append(_r(m + h)); islog.append(False)
        elif c == "tiny":
            m = _r(rng.uniform(-5, 5), 3)
            h = _r(10 ** rng.uniform(-6, -3), 3)
            lb.append(_r(m - h, 12)); ub.append(_r(m + h, 12)); plb.append(_r(m - h / 2, 12)); pub.append(_r(m + h / 2, 12)); islog.append(False)
        elif c == "huge":
            # hard box up to 1e9 wide around a plausible box of ordinary size: internal coordinates of points
            # between the two reach 1e7 and more (catastrophic cancellation territory for squared distances)
            h = _r(10 ** rng.uniform(4, 9), 3)
            pw = _r(min(h * 0.5, 10 ** rng.uniform(0, 3)), 3)
            lb.append(-h); ub.append(h); plb.append(-pw); pub.append(pw); islog.append(False)
        elif c == "vast":
            # like "huge" with the ratio hard/plausible width always >= 1e7.5
            h = _r(10 ** rng.uniform(8.5, 9.5), 3)
            pw = _r(10 ** rng.uniform(-0.3, 1.0), 3)
            lb.append(-h); ub.append(h); plb.append(-pw); pub.append(pw); islog.append(False)
        elif c == "log":
            # hard bounds within ~1.5 decades of the plausible ones: pybads moves the
            # plausible bounds inside lb + 1e-3*(ub-lb), so a much larger ub would
            # make the definition invalid (StrictBounds)
            pa = 10 ** rng.uniform(-6, 2)
            pb = pa * 10 ** rng.uniform(1.05, 3.0)
            a = pa / 10 ** rng.uniform(0, 1.0) if rng.random() < 0.7 else pa
            b = pb * 10 ** rng.uniform(0, 1.3) if rng.random() < 0.7 else pb
            lb.append(_r(a)); ub.append(_r(b)); plb.append(_r(max(pa, _r(a)))); pub.append(_r(min(pb, _r(b)))); islog.append(True)
        else:
            raise ValueError(cls)
        # make sure ordering survived rounding
        if not (lb[-1] <= plb[-1] < pub[-1] <= ub[-1]):
            plb[-1], pub[-1] = lb[-1], ub[-1]
        if islog[-1] and not (lb[-1] > 0 and pub[-1] / plb[-1] >= 10):
            islog[-1] = False
    g = dict(lb=lb, ub=ub, plb=plb, pub=pub, islog=islog, cls=cls)
    if cls == "tight" and rng.random() < 0.5:
        g["plb"] = None
        g["pub"] = None
    if cls == "log" and rng.random() < 0.3:
        # plausible bounds omitted: they default to the hard bounds (still >= one decade: log transform)
        g["plb"] = None
        g["pub"] = None
    return g


def _inside(rng, lo, hi, log=False, margin=0.05):
    if log and lo > 0:
        a, b = math.log(lo), math.log(hi)
        return math.exp(a + (b - a) * rng.uniform(margin, 1 - margin))
    return lo + (hi - lo) * rng.uniform(margin, 1 - margin)


def gen_x0(rng, g, D, kind):
    if kind == "absent":
        return None, "absent"
    plb = g["plb"] if g["plb"] is not None else g["lb"]
    pub = g["pub"] if g["pub"] is not None else g["ub"]
    x0 = [_r(_inside(rng, plb[i], pub[i], g["islog"][i]), 9) for i in range(D)]
    cls = "inside"
    if kind == "on_bound" and g["lb"] is not None:
        cls = "on_bound"
        for i in range(D):
            if rng.random() < 0.6:
                x0[i] = g["lb"][i] if rng.random() < 0.5 else g["ub"][i]
    elif kind == "hard_not_plausible" and g["lb"] is not None and g["plb"] is not None:
        cls = "on_bound"   # may be moved: treated like a possibly-moved point
        for i in range(D):
            if rng.random() < 0.5 and g["plb"][i] > g["lb"][i]:
                x0[i] = _r(_inside(rng, g["lb"][i], g["plb"][i], g["islog"][i], 0.3), 9)
    elif kind == "just_inside" and g["lb"] is not None:
        # just beyond the zone in which the constructor nudges a start away from a hard bound (1e-3 of the range), but
        # within a search-mesh step of it: snapping the start to the mesh may overshoot an off-grid bound
        cls = "on_bound"
        for i in range(D):
            if rng.random() < 0.6 and math.isfinite(g["lb"][i]) and math.isfinite(g["ub"][i]):
                t = 10 ** rng.uniform(math.log10(1.02e-3), math.log10(3e-2))
                rngw = g["ub"][i] - g["lb"][i]
                x0[i] = _r(g["lb"][i] + t * rngw, 12) if rng.random() < 0.5 else _r(g["ub"][i] - t * rngw, 12)
    elif kind == "far" and g["lb"] is not None and g["plb"] is not None:
        # every coordinate 10**6.5 .. 10**8.5 plausible widths away from the plausible box (huge hard boxes only)
        cls = "on_bound"
        for i in range(D):
            wd = g["pub"][i] - g["plb"][i]
            room = min(g["ub"][i] - g["pub"][i], g["plb"][i] - g["lb"][i])
            if wd > 0 and room > 1e7 * wd and not g["islog"][i]:
                m = 10 ** rng.uniform(6.5, min(8.5, math.log10(0.8 * room / wd)))
                x0[i] = _r(0.5 * (g["plb"][i] + g["pub"][i]) + rng.choice([-1, 1]) * m * wd, 12)
            elif rng.random() < 0.5 and g["plb"][i] > g["lb"][i]:
                x0[i] = _r(_inside(rng, g["lb"][i], g["plb"][i], g["islog"][i], 0.3), 9)
    if g["lb"] is not None and cls == "inside":
        for i in range(D):
            rngw = g["ub"][i] - g["lb"][i]
            if not (g["lb"][i] + 1.5e-3 * rngw < x0[i] < g["ub"][i] - 1.5e-3 * rngw):
                cls = "on_bound"   # pybads moves such points inside the effective bounds
    return x0, cls


def gen_optimum(rng, g, D, where):
    if where == "x0":
        where = "plausible"     # replaced by the starting point itself in make_scenario
    lo = g["lb"] if g["lb"] is not None else [p - 3 * (q - p) for p, q in zip(g["plb"], g["pub"])]
    hi = g["ub"] if g["ub"] is not None else [q + 3 * (q - p) for p, q in zip(g["plb"], g["pub"])]
    plb = g["plb"] if g["plb"] is not None else lo
    pub = g["pub"] if g["pub"] is not None else hi
    c = []
    for i in range(D):
        lg = g["islog"][i]
        if where == "plausible":
            c.append(_inside(rng, plb[i], pub[i], lg, 0.1))
        elif where == "hard":
            c.append(_inside(rng, lo[i], hi[i], lg, 0.02))
        elif where == "face":
            if rng.random() < 0.6:
                c.append(lo[i] if rng.random() < 0.5 else hi[i])
            else:
                c.append(_inside(rng, plb[i], pub[i], lg, 0.1))
        elif where == "outside":
            wdt = hi[i] - lo[i]
            if rng.random() < 0.7:
                if lg:
                    c.append(hi[i] * 10 ** rng.uniform(0.1, 1) if rng.random() < 0.5 else lo[i] / 10 ** rng.uniform(0.1, 1))
                else:
                    c.append(hi[i] + wdt * rng.uniform(0.05, 2) if rng.random() < 0.5 else lo[i] - wdt * rng.uniform(0.05, 2))
            else:
                c.append(_inside(rng, plb[i], pub[i], lg, 0.1))
        else:
            raise ValueError(where)
    return [_r(v, 9) for v in c]


def gen_target(rng, g, D, fam, where, seed):
    plb = g["plb"] if g["plb"] is not None else g["lb"]
    pub = g["pub"] if g["pub"] is not None else g["ub"]
    scale = [max(q - p, 1e-12) for p, q in zip(plb, pub)]
    c = gen_optimum(rng, g, D, where)
    if fam == "quad":
        if all(g["islog"]):
            return dict(family="logquad", c=[abs(v) + 1e-300 for v in c], w=[_r(10 ** rng.uniform(0, 1.5), 3) for _ in range(D)])
        ev = [_r(10 ** rng.uniform(0, 2) / (s / 2) ** 2, 6) for s in scale]
        # a constant offset changes neither minimiser nor conditioning (typical of log-likelihoods)
        off = _choice(rng, [0.0, 0.0, 0.0, 1e3, -1e3, 1e5, -1e5, 37.5])
        return dict(family="quad", c=c, ev=ev, offset=off,
                    rot_seed=subseed(seed, "rot") if (D > 1 and rng.random() < 0.7 and not any(g["islog"])) else None)
    if fam == "abs":
        return dict(family="abs", c=c, w=[_r(10 ** rng.uniform(-1, 1) / s, 6) for s in scale])
    if fam == "plateau":
        return dict(family="plateau", c=c, step=_r(sum(s ** 2 for s in scale) / 10 ** rng.uniform(0.5, 2), 3))
    if fam == "const":
        return dict(family="const", value=_r(rng.uniform(-5, 5), 3))
    if fam == "linear":
        return dict(family="linear", g=[_r(rng.choice([-1, 1]) * 10 ** rng.uniform(-1, 1) / s, 6) for s in scale])
    if fam == "rosen":
        return dict(family="rosen")
    if fam == "adversary":
        n = rng.randrange(4, 60)
        # G: gain >> forcing function, m: gain around tol_fun (an unsuccessful poll/search that still moves the
        # incumbent), g: gain << tol_fun, t: tie, l: loss
        weights = _choice(rng, [(1, 1, 1, 1, 1), (6, 1, 1, 1, 1), (1, 1, 1, 1, 6), (1, 2, 4, 4, 1), (3, 0, 0, 0, 3), (0, 1, 1, 1, 8),
                                (1, 5, 1, 1, 4), (0, 4, 1, 0, 5)])
        script = "".join(_choice(rng, ["G", "m", "g", "t", "l"], weights) for _ in range(n))
        return dict(family="adversary", script=script, big=_r(10 ** rng.uniform(-1, 2), 3),
                    medium=_r(10 ** rng.uniform(-3.6, -1.8), 3),
                    tiny=_r(10 ** rng.uniform(-7, -3.5), 3), loss=_r(10 ** rng.uniform(-3, 1), 3),
                    start=_r(rng.uniform(-10, 100), 4), cycle=rng.random() < 0.7)
    raise ValueError(fam)


# ---------------------------------------------------------------------------
# constraints (built around a feasible anchor point)
# ---------------------------------------------------------------------------

def gen_cons(rng, g, D, x0, kind):
    plb = g["plb"] if g["plb"] is not None else g["lb"]
    pub = g["pub"] if g["pub"] is not None else g["ub"]
    scale = [q - p for p, q in zip(plb, pub)]
    smin = min(scale)
    anchor = x0 if x0 is not None else [(p + q) / 2 for p, q in zip(plb, pub)]

    def unit():
        v = [rng.gauss(0, 1) for _ in range(D)]
        n = math.sqrt(sum(t * t for t in v)) or 1.0
        return [t / n for t in v]
    if kind == "ball":
        r = smin * rng.uniform(0.2, 1.5)
        d = unit()
        off = r * rng.uniform(0, 0.8)
        c = [_r(a + off * t, 9) for a, t in zip(anchor, d)]
        return dict(kind="ball", c=c, r=_r(r, 6))
    if kind == "halfspace":
        a = unit()
        sa = [t / s for t, s in zip(a, scale)]
        b = sum(t * v for t, v in zip(sa, anchor)) + rng.uniform(0.02, 0.6)
        return dict(kind="halfspace", a=[_r(t, 9) for t in sa], b=_r(b, 9))
    if kind == "slab":
        a = unit()
        sa = [t / s for t, s in zip(a, scale)]
        w = 10 ** rng.uniform(-3, -0.7)
        b = sum(t * v for t, v in zip(sa, anchor)) + w * rng.uniform(-0.5, 0.5)
        return dict(kind="slab", a=[_r(t, 9) for t in sa], b=_r(b, 9), w=_r(w, 6))
    if kind == "annulus":
        r0 = smin * rng.uniform(0.2, 0.8)
        d = unit()
        c = [_r(a + r0 * t, 9) for a, t in zip(anchor, d)]
        return dict(kind="annulus", c=c, r1=_r(r0 * rng.uniform(0.2, 0.9), 6), r2=_r(r0 * rng.uniform(1.1, 2.5), 6))
    if kind == "union":
        p1 = gen_cons(rng, g, D, anchor, "ball")
        far = [a + smin * rng.uniform(0.5, 1.5) * t for a, t in zip(anchor, unit())]
        p2 = gen_cons(rng, g, D, far, "ball")
        return dict(kind="union", parts=[p1, p2])
    if kind == "hole":
        # the centre of the plausible box (the origin of the internal coordinates, a node of every mesh) is infeasible:
        # a ball around it is cut out; the start is expected on a coarse lattice point outside the hole
        c = [(p + q) / 2 for p, q in zip(plb, pub)]
        r1 = smin * rng.uniform(0.05, 0.2)
        big = 10.0 * max(max(abs(q - p) for p, q in zip(g["lb"], g["ub"])) if g["lb"] is not None else 0.0, max(scale)) * math.sqrt(D)
        return dict(kind="annulus", c=[_r(v, 12) for v in c], r1=_r(r1, 6), r2=_r(big, 6), hole=True)
    if kind == "corner":
        # half-space cutting a wedge against one finite hard-bound face: feasible points near the corner lie between
        # the face and the plane, so moving inward from the bound makes them infeasible. Returns the corner as well
        # (make_scenario puts the unconstrained optimum just beyond it).
        if g["lb"] is None or D < 2 or x0 is None:
            return gen_cons(rng, g, D, x0, "halfspace")
        for _ in range(40):
            i = rng.randrange(D)
            j = rng.choice([t for t in range(D) if t != i])
            side = rng.choice([-1, 1])
            B = g["ub"][i] if side > 0 else g["lb"][i]
            if not math.isfinite(B) or g["islog"][i] or g["islog"][j]:
                continue
            d = side * (B - anchor[i]) / scale[i]
            if not d > 0:
                continue
            cc = rng.choice([-1, 1]) * rng.uniform(0.3, 1.5)
            q = anchor[j] + (d + rng.uniform(0.05, 0.4)) * scale[j] / cc
            if not (g["lb"][j] + 0.05 * (g["ub"][j] - g["lb"][j]) < q < g["ub"][j] - 0.05 * (g["ub"][j] - g["lb"][j])):
                continue
            a = [0.0] * D
            a[i] = -side / scale[i]
            a[j] = cc / scale[j]
            b = a[i] * B + a[j] * q
            corner = list(anchor)
            corner[i], corner[j] = B, q
            return dict(kind="halfspace", a=[_r(t, 12) for t in a], b=_r(b, 12), corner=[float(t) for t in corner],
                        corner_out=[side * scale[i] if t == i else ((1 if cc > 0 else -1) * scale[j] if t == j else 0.0) for t in range(D)])
        return gen_cons(rng, g, D, x0, "halfspace")
    if kind == "pinhole":
        # feasible set contains a single point of the initial search mesh (x0 itself):
        # every search candidate and every poll point is infeasible until the mesh has
        # shrunk below the hole - a long stretch of loop iterations without evaluations
        r = 0.3 * min(s / 2048.0 for s in scale)
        return dict(kind="ball", c=[float(v) for v in anchor], r=float(r))
    if kind == "tinyball":
        r = smin * 10 ** rng.uniform(-4, -1.5)
        return dict(kind="ball", c=[_r(v, 12) for v in anchor], r=_r(r, 6))
    raise ValueError(kind)


def _special_x0(rng, g, D, cons, x0, mode):
    """x0 strictly inside the effective bounds that is infeasible, or feasible but
    very close to the constraint boundary."""
    from .targets import make_violation
    v = make_violation(cons, D)
    lo = [g["lb"][i] + 2e-3 * (g["ub"][i] - g["lb"][i]) for i in range(D)]
    hi = [g["ub"][i] - 2e-3 * (g["ub"][i] - g["lb"][i]) for i in range(D)]
    plb = g["plb"] if g["plb"] is not None else lo
    pub = g["pub"] if g["pub"] is not None else hi
    bad = None
    for _ in range(200):
        cand = [min(max(_inside(rng, plb[i], pub[i], g["islog"][i], 0.02), lo[i]), hi[i]) for i in range(D)]
        if v(cand) > 0:
            bad = cand
            break
    if bad is None:
        return None
    if mode == "infeasible":
        return [_r(t, 12) for t in bad]
    good = [min(max(t, lo[i]), hi[i]) for i, t in enumerate(x0)]
    if v(good) > 0:
        return None
    a, b = good, bad
    for _ in range(rng.randrange(8, 40)):
        m = [(p + q) / 2 for p, q in zip(a, b)]
        if v(m) > 0:
            b = m
        else:
            a = m
    if mode == "infeasible_near":
        # just outside the feasible region: snapping to the mesh may move it inside
        return [float(t) for t in b]
    return [float(t) for t in a]


# ---------------------------------------------------------------------------
# options knobs
# ---------------------------------------------------------------------------

def gen_options(rng, D, prof, noise_mode):
    o = {}
    # boundary seeds (0 is a valid and popular seed) in one run out of eight
    o["random_seed"] = rng.randrange(0, 2**31 - 1) if rng.random() < 0.875 else _choice(rng, [0, 0, 1, 2**31 - 2, 2**32 - 1])
    bmax = prof.get("budget_max", 120)
    bmin = prof.get("budget_min", 12)
    bkind = _choice(rng, prof.get("budget_kinds", ["small", "mid", "mid", "large"]))
    if bkind == "tiny":
        o["max_fun_evals"] = rng.randrange(max(2, bmin // 2), max(3, 12 + 4 * D))
    elif bkind == "small":
        o["max_fun_evals"] = rng.randrange(bmin, max(bmin + 1, 20 + 10 * D))
    elif bkind == "mid":
        o["max_fun_evals"] = rng.randrange(20 + 5 * D, max(21 + 5 * D, bmax))
    elif bkind == "large":
        o["max_fun_evals"] = rng.randrange(bmax, int(bmax * 1.8) + 1)
    if noise_mode != "none":
        o["max_fun_evals"] = max(o["max_fun_evals"], prof.get("noisy_budget_min", 8))
    knobs = prof.get("knobs", {})

    def maybe(name, p, fn):
        if rng.random() < knobs.get(name, p):
            o[name] = fn()
    maybe("max_iter", 0.2, lambda: rng.randrange(1, 11))
    # incl. exact powers of two (the snapped tolerance then equals the option value)
    maybe("tol_mesh", 0.3, lambda: _choice(rng, [1e-2, 1e-3, 1e-4, 1e-5, 1e-6, 3e-3, 2.0 ** -3, 2.0 ** -4, 0.25, 2.0 ** -7, 2.0 ** -10]))
    maybe("complete_poll", 0.25, lambda: True)
    maybe("accelerate_mesh", 0.3, lambda: False)
    maybe("cache_size", 0.4, lambda: rng.randrange(1, 9))
    maybe("n_search", 0.4, lambda: _choice(rng, [2, 4, 6, 8, 16, 32, 64, 256, 1024, 4096]))
    maybe("fun_eval_start", 0.25, lambda: rng.randrange(1, 3 * D + 4))
    if rng.random() < knobs.get("n_train", 0.25):
        # n_train_max must stay above the size of the initial design: below it the
        # N-dependent GP design size (a cubic in (n_eff - n_init)/(n_train_max - n_init))
        # explodes to millions of points and a single fit takes hours (observed; a
        # performance hazard of the option, not a property violation) - see DESIGN.md
        fes = o.get("fun_eval_start", D)
        esp_bound = 2 + 2 * max(int(fes), 1)
        o["n_train_max"] = rng.randrange(esp_bound + 4, esp_bound + 44)
        o["n_train_min"] = rng.randrange(3, o["n_train_max"] + 1)
        if rng.random() < 0.6:
            # "max number of training data removed if too far from the current point"
            o["buffer_ntrain"] = rng.randrange(0, 31)
        if rng.random() < 0.5:
            o["gp_radius"] = _choice(rng, [0.25, 0.5, 1.0, 3.0])
    # search portfolio: single strategy, default pair, or three/four entries (sum-rule flag 0/1)
    maybe("search_method", 0.15, lambda: _choice(rng, [[["ES-ell", 1]], [["ES-wcm", 1]], [["ES-wcm", 1], ["ES-ell", 1], ["ES-wcm", 0]],
                                                        [["ES-ell", 0], ["ES-wcm", 1], ["ES-ell", 1], ["ES-wcm", 0]]]))
    maybe("force_poll_mesh", 0.12, lambda: True)
    maybe("search_size_locked", 0.05, lambda: False)
    maybe("search_grid_number", 0.04, lambda: _choice(rng, [3, 4, 6]))      # coarser initial search mesh
    maybe("search_mesh_increment", 0.04, lambda: _choice(rng, [0, 2]))      # no effect while search_mesh_expand is 0
    # options that gate rarely taken branches of the GP refit code
    maybe("gp_warnings", 0.12, lambda: True)
    maybe("double_refit", 0.08, lambda: True)
    maybe("noise_nudge", 0.08, lambda: _choice(rng, [{"__np__": [0.5, 0.25]}, {"__np__": [1.0]}, {"__np__": [2, 0]}, None]))
    maybe("nonlinear_scaling", 0.1, lambda: False)
    maybe("tol_fun", 0.1, lambda: _choice(rng, [1e-2, 1e-4, 1e-6]))
    maybe("tol_stall_iters", 0.15, lambda: rng.randrange(1, 6))
    if rng.random() < prof.get("rare_knobs", 0.0):
        # rarely used but valid switches of the search/poll controller
        for name, val in rng.sample([("skip_poll_after_search", False), ("consecutive_skipping", False), ("poll_training", False),
                                     ("skip_poll", False), ("hedge_gamma", 0), ("hedge_gamma", 0.25), ("search_n_try", 1),
                                     ("search_n_try", 2), ("fun_eval_start", 0), ("tol_stall_iters", 1), ("accelerate_mesh_steps", 1),
                                     ("min_refit_time", 1), ("tol_poi", 0.0), ("search_grid_number", 6), ("gp_mean_percentile", 50), ("search_size_locked", False), ("search_size_locked", False), ("sloppy_improvement", False)],
                                    rng.randrange(1, 4)):
            if not (name == "sloppy_improvement" and prof.get("name") == "c04"):
                o[name] = val
    if noise_mode != "none":
        maybe("noise_final_samples", 0.6, lambda: _choice(rng, prof.get("nfs_choices", [0, 1, 1, 2, 3, 5, 10])))
    else:
        # noise_size only feeds the GP noise prior of a deterministic run (valid, rarely set)
        maybe("noise_size_det", 0.15, lambda: None)
        if "noise_size_det" in o:
            del o["noise_size_det"]
            o["noise_size"] = _r(10 ** rng.uniform(-3, 0), 3)
        maybe("noise_size", 0.3, lambda: _r(10 ** rng.uniform(-2, 0.5), 3))
    return o


# ---------------------------------------------------------------------------
# full scenario
# ---------------------------------------------------------------------------

DEFAULT_PROFILE = dict(
    D=[1, 2, 2, 3, 3, 4, 5],
    geom=["sym", "asym", "tight", "log", "mixedlog", "unbounded", "tiny", "huge", "aligned"],
    geom_w=[3, 3, 2, 2, 2, 2, 1, 1, 2],
    x0=["inside", "on_bound", "absent", "hard_not_plausible"],
    x0_w=[5, 2, 2, 1],
    where=["plausible", "hard", "face", "outside", "x0"],
    where_w=[4, 2, 2, 2, 1],
    fam=["quad", "abs", "plateau", "const", "linear", "rosen", "adversary"],
    fam_w=[6, 2, 2, 1, 1, 1, 3],
    noise=["none", "auto", "declared", "hetero"],
    noise_w=[5, 1, 2, 2],
    cons_p=0.3,
    cons=["ball", "halfspace", "slab", "annulus", "union", "tinyball", "pinhole"],
    cons_w=[3, 3, 2, 2, 1, 1, 1],
    clock=["const", "zero", "rand", "long", "jumps"],
    clock_w=[4, 1, 2, 1, 2],
)


def make_scenario(seed, profile=None, index=0):
    prof = dict(DEFAULT_PROFILE)
    if profile:
        prof.update(profile)
    rng = stream(seed, f"scn/{prof.get('name', 'default')}/{index}")
    sseed = subseed(seed, f"scn/{prof.get('name', 'default')}/{index}")
    D = _choice(rng, prof["D"])
    gcls = _choice(rng, prof["geom"], prof.get("geom_w"))
    g = gen_geometry(rng, D, gcls)
    x0kind = _choice(rng, prof["x0"], prof.get("x0_w"))
    x0, x0cls = gen_x0(rng, g, D, x0kind)
    if gcls == "aligned" and x0 is not None and rng.random() < 0.5:
        # start on a coarse lattice point of the internal grid (plausible bounds, centre, halves): the first polls
        # (mesh 1, 1/2, ...) then land exactly on - or a hair beyond - mesh-aligned hard bounds
        x0 = [g["plb"][i] + (g["pub"][i] - g["plb"][i]) * rng.choice([0.0, 0.25, 0.5, 0.75, 1.0]) for i in range(D)]
        x0cls = "on_bound"
    where = _choice(rng, prof["where"], prof.get("where_w"))
    fam = _choice(rng, prof["fam"], prof.get("fam_w"))
    tgt = gen_target(rng, g, D, fam, where, sseed)
    if where == "x0" and x0 is not None and isinstance(tgt.get("c"), list) and len(tgt["c"]) == D:
        # the starting point is already optimal: the run should return (the snapped) x0, record 0 of the log
        tgt["c"] = [abs(v) + 1e-300 for v in x0] if tgt["family"] == "logquad" else list(x0)
    nkind = _choice(rng, prof["noise"], prof.get("noise_w"))
    if fam in ("adversary",) and nkind != "none" and rng.random() < 0.7:
        nkind = "none"
    scn = dict(v=1, seed=seed, profile=prof.get("name", "default"), index=index, D=D,
               lb=g["lb"], ub=g["ub"], plb=g["plb"], pub=g["pub"], x0=x0, x0_class=x0cls,
               geom=gcls, where=where, target=tgt)
    noise = None
    noise_mode = "none"
    opts_noise = {}
    if nkind != "none":
        lo_s, hi_s = prof.get("sigma_log10", (-3, 0.5))
        sigma = _r(10 ** rng.uniform(lo_s, hi_s), 3)
        if nkind == "hetero":
            plb = g["plb"] if g["plb"] is not None else g["lb"]
            pub = g["pub"] if g["pub"] is not None else g["ub"]
            noise = dict(mode="hetero", sigma=sigma, het=_r(rng.uniform(0, 2), 3),
                         c=[_r((p + q) / 2, 6) for p, q in zip(plb, pub)],
                         scale=_r(max(q - p for p, q in zip(plb, pub)), 6), seed=subseed(sseed, "noise"))
            opts_noise["specify_target_noise"] = True
            # (specify_target_noise without uncertainty_handling=True is rejected by the
            # constructor with ValueError on this tree; see DESIGN.md, observations)
            opts_noise["uncertainty_handling"] = True
            noise_mode = "hetero"
        else:
            noise = dict(mode="homo", sigma=sigma, seed=subseed(sseed, "noise"))
            if nkind == "declared":
                opts_noise["uncertainty_handling"] = True
            noise_mode = "homo"
        if prof.get("noise_rng_global") and rng.random() < prof["noise_rng_global"]:
            noise["rng"] = "global"
    if nkind == "none" and rng.random() < prof.get("declared0_p", 0.0):
        # a noiseless target that the user declares noisy: every repeated observation is an exact tie
        opts_noise["uncertainty_handling"] = True
        nkind = "declared0"
    scn["noise"] = noise
    scn["noise_kind"] = nkind
    cons = None
    if rng.random() < prof["cons_p"]:
        ckind = _choice(rng, prof["cons"], prof.get("cons_w"))
        if ckind == "pinhole":
            ok = g["lb"] is not None and g["plb"] is not None and not any(g["islog"]) and all(
                g["plb"][i] > g["lb"][i] + 2e-3 * (g["ub"][i] - g["lb"][i]) and
                g["pub"][i] < g["ub"][i] - 2e-3 * (g["ub"][i] - g["lb"][i]) for i in range(D))
            if ok:
                # x0 exactly on the initial search mesh (2**-10 in internal units)
                x0 = [g["plb"][i] + (g["pub"][i] - g["plb"][i]) * rng.randrange(200, 1849) / 2048.0 for i in range(D)]
                scn["x0"], scn["x0_class"] = x0, "on_bound"
            else:
                ckind = "tinyball"
                if x0 is None:
                    x0, _ = gen_x0(rng, g, D, "inside")
                    scn["x0"], scn["x0_class"] = x0, "on_bound"
        cons = gen_cons(rng, g, D, x0, ckind)
        cons["ret"] = "bool" if rng.random() < 0.4 else "float"
        cons["gen_kind"] = ckind
        if cons.pop("hole", False) and x0 is not None and not any(g["islog"]):
            # start on a lattice point of the internal grid (quarter steps of the plausible box) outside the hole
            pl_ = g["plb"] if g["plb"] is not None else g["lb"]
            pu_ = g["pub"] if g["pub"] is not None else g["ub"]
            for _ in range(20):
                x0 = [0.5 * (pl_[t] + pu_[t]) + (pu_[t] - pl_[t]) * rng.choice([-0.5, -0.5, 0.5, 0.5, -0.25, 0.25, 0.0]) for t in range(D)]
                if sum((x0[t] - cons["c"][t]) ** 2 for t in range(D)) > (1.5 * cons["r1"]) ** 2:
                    break
            else:
                x0 = [0.5 * (pl_[t] + pu_[t]) + (pu_[t] - pl_[t]) * 0.5 for t in range(D)]
            scn["x0"], scn["x0_class"] = [float(v) for v in x0], "on_bound"
            if scn["target"]["family"] in ("quad", "abs"):
                # optimum on the far side of the hole
                scn["target"]["c"] = [_r(2 * cons["c"][t] - x0[t], 9) for t in range(D)]
        if cons.get("corner") is not None:
            # unconstrained optimum just beyond the corner (outside the bound, on the infeasible side of the plane)
            co, out = cons.pop("corner"), cons.pop("corner_out")
            t1, t2 = rng.uniform(0.05, 0.5), rng.uniform(0.05, 0.5)
            cen = [co[t] + (t1 if abs(out[t]) > 0 and cons["a"][t] * out[t] < 0 else t2) * out[t] for t in range(D)]
            if scn["target"]["family"] in ("quad", "abs"):
                scn["target"]["c"] = [_r(v, 9) for v in cen]
            elif scn["target"]["family"] == "linear":
                pl_ = g["plb"] if g["plb"] is not None else g["lb"]
                pu_ = g["pub"] if g["pub"] is not None else g["ub"]
                nrm = max(sum(((cen[u] - x0[u]) / (pu_[u] - pl_[u])) ** 2 for u in range(D)), 1e-300) ** 0.5
                scn["target"]["g"] = [_r(-((cen[t] - x0[t]) / (pu_[t] - pl_[t])) / nrm / (pu_[t] - pl_[t]), 6) for t in range(D)]
        if rng.random() < prof.get("gate_p", 0.0):
            # search-step outcome script: A = candidates judged by the region, R = every candidate batch rejected
            if rng.random() < 0.5:
                # a few evaluating searches, then empty candidate sets for the rest of the run
                cons["gate"] = dict(script="A" * rng.randrange(1, 5), tail="R")
            else:
                n_a = rng.randrange(0, 6)
                body = "".join(_choice(rng, ["A", "R"], _choice(rng, [(1, 1), (1, 4), (4, 1)])) for _ in range(rng.randrange(0, 12)))
                cons["gate"] = dict(script="A" * n_a + body, tail=_choice(rng, ["R", "R", "A"]))
    scn["cons"] = cons
    if cons is not None and x0 is not None and g["lb"] is not None:
        mode = None
        t = rng.random()
        if t < prof.get("x0_infeasible_p", 0.0):
            mode = "infeasible"
        elif t < prof.get("x0_infeasible_p", 0.0) + prof.get("x0_nearcons_p", 0.0):
            mode = "near_cons"
        elif t < prof.get("x0_infeasible_p", 0.0) + prof.get("x0_nearcons_p", 0.0) + prof.get("x0_infeasible_near_p", 0.0):
            mode = "infeasible_near"
        if mode:
            nx = _special_x0(rng, g, D, cons, x0, mode)
            if nx is not None:
                scn["x0"] = nx
                scn["x0_class"] = "infeasible" if mode == "infeasible_near" else mode
    opts = gen_options(rng, D, prof, "homo" if nkind == "declared0" else noise_mode)
    opts.update(opts_noise)
    opts.update(prof.get("force_options", {}))
    scn["options"] = opts
    # clock
    ck = _choice(rng, prof["clock"], prof.get("clock_w"))
    clock = dict(mode=ck if ck != "jumps" else "rand", seed=subseed(sseed, "clock"))
    if ck == "rand":
        clock.update(lo=0.0, hi=_r(10 ** rng.uniform(-3, 2), 3))
    if ck == "jumps":
        clock.update(lo=0.0, hi=2.0, jumps=[dict(at_call=rng.randrange(1, 60), kind=_choice(rng, ["in", "post"]),
                                                 delta=_r(_choice(rng, [-1, 1]) * 10 ** rng.uniform(0, 5), 3))
                                            for _ in range(rng.randrange(1, 4))])
    scn["clock"] = clock
    if rng.random() < prof.get("reuse_arrays_p", 0.0):
        scn["reuse_arrays"] = _choice(rng, ["construct", "construct", "run"])
        if scn.get("cons") is None and scn["plb"] is not None and rng.random() < 0.5:
            # no starting point: it is drawn from whatever the (possibly modified) plausible box says
            scn["x0"], scn["x0_class"] = None, "absent"
    if cons is not None and rng.random() < prof.get("pre_relaxed_p", 0.0):
        # an earlier optimisation in the same process on the same box/seed with a *relaxed* constraint region:
        # identical candidate points, different feasibility (exposes feasibility state shared between instances)
        import copy as _copy
        other = _copy.deepcopy({k: v for k, v in scn.items() if k not in ("pre",)})
        oc = other["cons"]

        def relax(c):
            if c["kind"] == "ball":
                c["r"] = c["r"] * 3.0
            elif c["kind"] == "halfspace":
                c["b"] = c["b"] + 0.5
            elif c["kind"] == "slab":
                c["w"] = c["w"] * 10.0
            elif c["kind"] == "annulus":
                c["r1"], c["r2"] = c["r1"] * 0.3, c["r2"] * 2.0
            for p_ in c.get("parts", []):
                relax(p_)
        relax(oc)
        other["options"] = dict(other["options"])
        other["options"]["max_fun_evals"] = min(int(other["options"].get("max_fun_evals", 40)), 40)
        other["faults"] = []
        scn["pre"] = [dict(op="opt", scn=other)]
    scn["faults"] = []
    # how the (well-behaved) target spells its finite real scalar: python float, numpy scalar, 1-element or 0-d array
    scn["ret_type"] = _choice(rng, ["float", "np64", "arr1", "arr0"], prof.get("ret_type_w", [6, 2, 1, 1]))
    scn["monitors"] = list(prof.get("monitors", []))
    # magnitude of the target values (own stream: the rest of the scenario is unchanged). The minimiser
    # and the ordering of values stay the same; noise scales along. Budgets are capped because the
    # unchanged library's GP fits are slow (not wrong) at extreme magnitudes.
    mrng = stream(seed, f"{prof.get('name', 'p')}/fmul/{index}")
    if mrng.random() < prof.get("fmul_p", 0.04) and prof.get("name") != "c06":
        mul = _choice(mrng, [1e-24, 1e-12, 1e-6, 1e6, 1e12])
        scn["target"]["fmul"] = mul
        if scn.get("noise"):
            scn["noise"]["sigma"] = float(scn["noise"].get("sigma", 1.0)) * mul
        if scn.get("fstar") is not None:
            scn["fstar"] = scn["fstar"] * mul
        scn["options"].pop("noise_size", None)
        scn["options"]["max_fun_evals"] = min(int(scn["options"].get("max_fun_evals", 40)), 40)
    if mrng.random() < prof.get("second_optimize_p", 0.0):
        scn["second_optimize"] = True
    # StoBADS requested for a target that turns out deterministic (documented: it is then switched off at run time)
    if scn.get("noise") is None and "uncertainty_handling" not in scn["options"] and mrng.random() < prof.get("knobs", {}).get("stobads", 0.05):
        scn["options"]["stobads"] = True
    # noise handling explicitly declined instead of left unset (deterministic or auto-detected targets)
    if "uncertainty_handling" not in scn["options"] and mrng.random() < 0.3:
        scn["options"]["uncertainty_handling"] = False
    # threshold of the initial noise test only (documented meaning); valid, rarely set (same own stream)
    if mrng.random() < prof.get("knobs", {}).get("tol_noise", 0.06):
        scn["options"]["tol_noise"] = _choice(mrng, [1e-3, 1e-5, 1e-8])
    return scn
