"""Property id -> check function(tier) -> exit code; replay kinds."""
from . import runlevel, c06, c10, c16

CHECKS = {}
for _p in runlevel.CFG:
    CHECKS[_p] = (lambda p: (lambda tier: runlevel.main(p, tier)))(_p)
CHECKS["C06"] = c06.main
CHECKS["C10"] = c10.main
CHECKS["C16"] = c16.main

REPLAYERS = {"c06panel": c06.replay_panel, "c10case": c10.replay, "c16case": c16.replay}
