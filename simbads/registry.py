"""Property id -> check function(tier) -> exit code; replay kinds."""
from . import runlevel, c06, c10, c16, c12, logmachine, c14, c07, c19, containers, c20, c17, c18

CHECKS = {}
for _p in runlevel.CFG:
    CHECKS[_p] = (lambda p: (lambda tier: runlevel.main(p, tier)))(_p)
CHECKS["C06"] = c06.main
CHECKS["C10"] = c10.main
CHECKS["C16"] = c16.main
CHECKS["C12"] = c12.main
CHECKS["C14"] = c14.main
CHECKS["C07"] = c07.main
CHECKS["C19"] = c19.main
CHECKS["C20"] = c20.main
CHECKS["C17"] = c17.main
CHECKS["C18"] = c18.main

REPLAYERS = {"c06panel": c06.replay_panel, "c10case": c10.replay, "c16case": c16.replay, "loghistory": logmachine.replay, "c14gen": c14.replay_gen, "c07case": c07.replay, "container": containers.replay, "c20seq": c20.replay, "c18mask": c18.replay_mask}
