"""Property id -> check function(tier) -> exit code."""
from . import runlevel

CHECKS = {}
for _p in runlevel.CFG:
    CHECKS[_p] = (lambda p: (lambda tier: runlevel.main(p, tier)))(_p)
REPLAYERS = {}
