"""simbads: deterministic simulation with fault injection for pybads."""
