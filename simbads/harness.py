"""Shared machinery of the checks: run batches, classify, minimise, write
replay and evidence files, apply the known-findings file, print the contract
lines (VIOLATION / KNOWN-FINDING / HARNESS-ERROR) and pick the exit code."""
import copy
import hashlib
import json
import os
import sys
import time

from . import env
from . import pool

_OUT = os.environ.get("VERIF_OUT_DIR") or env.VERIF_ROOT   # self-tests redirect their output
EVID_DIR = os.path.join(_OUT, "evidence")
REPLAY_DIR = os.path.join(_OUT, "replays")
KNOWN_FILE = os.path.join(env.VERIF_ROOT, "KNOWN_FINDINGS.txt")

LEVELS = {"C10": "fault_enumeration", "C16": "fault_enumeration"}


def default_seed(tier):
    v = os.environ.get("VERIF_SEED")
    if v is not None and v.strip() != "":
        return int(v)
    return 20260926 if tier == "quick" else 20260927


def scn_digest(obj):
    return hashlib.sha256(json.dumps(obj, sort_keys=True, default=str).encode()).hexdigest()[:16]


# ---------------------------------------------------------------------------
# known findings
# ---------------------------------------------------------------------------

def load_known():
    """Lines: 'finding: property=C17 id=KF-.. cls=<cls>[,<cls>] <text>'  (suppressing)
              'fixed: property=C12 <commit> <text>'                       (suppresses nothing)"""
    out = []
    if not os.path.exists(KNOWN_FILE):
        return out
    for line in open(KNOWN_FILE):
        line = line.strip()
        if not line.startswith("finding:"):
            continue
        parts = line[len("finding:"):].split()
        d = {"text": []}
        for p in parts:
            if "=" in p and p.split("=", 1)[0] in ("property", "id", "cls", "frame", "exc", "site"):
                k, v = p.split("=", 1)
                d[k] = v
            else:
                d["text"].append(p)
        d["text"] = " ".join(d["text"])
        out.append(d)
    return out


def match_known(known, prop, cls, extra=None):
    for k in known:
        if k.get("property") != prop:
            continue
        if cls in k.get("cls", "").split(","):
            ok = True
            for f in ("frame", "exc"):
                if f in k and (extra or {}).get(f) != k[f]:
                    ok = False
            if ok:
                return k
    return None


# ---------------------------------------------------------------------------
# Report: accumulates what a check found and renders the contract
# ---------------------------------------------------------------------------

class Report:
    def __init__(self, prop, tier, seed):
        self.prop = prop
        self.tier = tier
        self.seed = seed
        self.t0 = time.time()
        self.known = load_known()
        self.violations = {}     # cls -> dict(first=..., count=..)
        self.known_seen = {}     # id -> count
        self.harness_errors = []
        self.cov = {}
        self.lines = []

    # a violation instance: cls, msg, case (replayable description), kind (replay kind), extra
    def add_violation(self, cls, msg, case, kind, extra=None, prop=None):
        prop = prop or self.prop
        k = match_known(self.known, prop, cls, extra)
        if k is not None:
            e = self.known_seen.setdefault(k.get("id", cls), {"count": 0, "k": k, "prop": prop, "cls": cls, "msg": msg})
            e["count"] += 1
            return "known"
        key = (prop, cls)
        v = self.violations.get(key)
        if v is None:
            self.violations[key] = {"count": 1, "msg": msg, "case": case, "kind": kind, "extra": extra or {}}
        else:
            v["count"] += 1
            # keep the smallest case as representative
            if len(json.dumps(case, default=str)) < len(json.dumps(v["case"], default=str)):
                v.update(msg=msg, case=case, kind=kind, extra=extra or {})
        return "violation"

    def harness_error(self, what):
        self.harness_errors.append(what)

    def finish(self, coverage, assumptions, shrink_fn=None, samples=None):
        """Write replays + evidence, print lines, return exit code."""
        os.makedirs(EVID_DIR, exist_ok=True)
        os.makedirs(REPLAY_DIR, exist_ok=True)
        n_viol = 0
        for (prop, cls), v in sorted(self.violations.items()):
            case, info = v["case"], {}
            if shrink_fn is not None:
                try:
                    case, info = shrink_fn(prop, cls, v["kind"], v["case"])
                except Exception as e:   # never lose a violation because shrinking failed
                    info = {"shrink_error": repr(e)}
            path = write_replay(prop, cls, v["kind"], case, v["msg"], self.seed, info, v["extra"])
            print(f"VIOLATION property={prop} replay={path}")
            print(f"  class={cls} count={v['count']} : {v['msg']}")
            n_viol += 1
        for kid, e in sorted(self.known_seen.items()):
            print(f"KNOWN-FINDING: property={e['prop']} id={kid} class={e['cls']} seen={e['count']} : {e['k'].get('text','')}")
        for h in self.harness_errors[:10]:
            print("HARNESS-ERROR " + str(h)[:1500])
        wall = time.time() - self.t0
        cov = dict(coverage)
        if not samples:
            samples = [{"note": "no case of this run met the non-triviality rule; see outcomes/aborted_unrelated"}]
        cov.setdefault("samples", samples)
        if not cov["samples"]:
            cov["samples"] = samples
        cov["known_findings_seen"] = {k: v["count"] for k, v in self.known_seen.items()}
        cov["harness_errors"] = len(self.harness_errors)
        ev = {
            "property_id": self.prop,
            "tier": self.tier,
            "seed": int(self.seed),
            "level": LEVELS.get(self.prop, "exploration"),
            "coverage": cov,
            "assumptions": assumptions,
            "wall_s": round(wall, 2),
            "violations": n_viol,
        }
        path = os.path.join(EVID_DIR, f"{self.prop}.json")
        with open(path, "w") as f:
            json.dump(ev, f, indent=1, default=_json_default)
        try:
            validate_evidence(path)
        except Exception as e:
            self.harness_errors.append("evidence file does not validate: " + str(e)[:300])
            print("HARNESS-ERROR evidence file does not validate: " + str(e)[:300])
        print(f"[{self.prop} {self.tier}] seed={self.seed} evaluations={cov.get('evaluations')} "
              f"nontrivial={cov.get('distinct_nontrivial')} violations={n_viol} "
              f"known={len(self.known_seen)} harness_errors={len(self.harness_errors)} wall={wall:.1f}s")
        if self.harness_errors:
            return 2
        return 1 if n_viol else 0


def _json_default(o):
    try:
        import numpy as np
        if isinstance(o, np.ndarray):
            return o.tolist()
        if isinstance(o, (np.floating,)):
            return float(o)
        if isinstance(o, (np.integer,)):
            return int(o)
        if isinstance(o, (np.bool_,)):
            return bool(o)
    except Exception:
        pass
    if isinstance(o, (set, frozenset)):
        return sorted(o, key=str)
    if isinstance(o, bytes):
        return o.hex()
    return repr(o)


def validate_evidence(path):
    try:
        import jsonschema
    except ImportError:
        return
    sch = "/root/.vp/EVIDENCE.schema.json"
    if not os.path.exists(sch):
        sch = os.path.join(env.VERIF_ROOT, "schemas", "EVIDENCE.schema.json")
    if os.path.exists(sch):
        jsonschema.validate(json.load(open(path)), json.load(open(sch)))


def write_replay(prop, cls, kind, case, msg, seed, info, extra):
    os.makedirs(REPLAY_DIR, exist_ok=True)
    safe = "".join(ch if ch.isalnum() or ch in "-_" else "_" for ch in cls)[:60]
    path = os.path.join(REPLAY_DIR, f"{prop}-{safe}-{seed}.json")
    doc = {"format": 1, "property": prop, "class": cls, "message": msg, "seed": seed,
           "kind": kind, "case": case, "minimisation": info, "extra": extra}
    with open(path, "w") as f:
        json.dump(doc, f, indent=1, default=_json_default)
    return path


# ---------------------------------------------------------------------------
# batch execution helpers
# ---------------------------------------------------------------------------

def run_batch(fn, cases, timeout, report, hang_is_violation=False, deadline=None, workers=None):
    """Run cases in forked children. Returns list of payloads (None where the task failed)."""
    res = pool.run_tasks(fn, cases, timeout=timeout, deadline=deadline, workers=workers)
    out = []
    for case, (st, payload) in zip(cases, res):
        if st == "ok":
            out.append(payload)
        elif st == "skipped":
            out.append(None)
        elif st == "timeout" and hang_is_violation:
            report.add_violation("hang", f"run did not finish within the wall cap ({timeout}s) and no deterministic cap cut it",
                                 case, "scenario")
            out.append(None)
        else:
            report.harness_error({"status": st, "payload": payload, "case_digest": scn_digest(case)})
            out.append(None)
    return out
