"""C17: candidate filtering - every filter call of full runs + filter operations
of the log machine on adversarial log states."""
import time

from . import harness, logmachine, runlevel


def main(tier):
    seed = harness.default_seed(tier)
    n = 8000 if tier == "quick" else 400000
    per = 500 if tier == "quick" else 5000
    tasks = [(seed + 17, lo, min(lo + per, n)) for lo in range(0, n, per)]
    rep0 = harness.Report("C17", tier, seed)
    t0 = time.time()
    outs = harness.run_batch(logmachine.run_batch, tasks, timeout=1800, report=rep0)
    n_done = n_filters = n_hits = 0
    found = {}
    for o in outs:
        if o is None:
            continue
        n_done += o["n"]
        n_filters += o["stats"].get("filters", 0)
        n_hits += o["stats"].get("filter_hits", 0)
        for i, h, probs in o["problems"]:
            for p, c, m, opi in probs:
                if p == "C17" and (c not in found or len(h["ops"]) < len(found[c][0]["ops"])):
                    found[c] = (h, f"log-machine history #{i}, operation {opi}: {m}")
    extra = dict(log_machine=dict(histories=n_done, filter_operations=n_filters, outputs_coinciding_with_logged_points=n_hits,
                                  note="candidates equal to logged points, within and beyond half a tolerance of them, on and outside the box faces, duplicated; the exhaustive small-lattice clause of the property is sampled"))

    def post(rep, cases, recs, cov):
        for c, (h, msg) in found.items():
            small, info = logmachine.shrink_history(h, "C17", c, max_runs=150)
            rep.add_violation(c, msg, small, "loghistory")
        rep.harness_errors.extend(rep0.harness_errors)
        cov["evaluations"] += n_filters
        cov["rule"] = "log machine: filter operations on generated log states (each judged clause by clause); runs: " + cov["rule"]
    return runlevel.main("C17", tier, extra_cov=extra, post=post)
