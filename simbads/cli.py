"""Entry point: python -m simbads.cli <ID> <quick|thorough>  |  --replay <file>"""
import json
import os
import sys

from . import env

env.ensure_hashseed()


def main(argv):
    if len(argv) >= 2 and argv[0] == "--replay":
        from . import replay
        return replay.main(argv[1])
    if len(argv) < 1:
        print("usage: check <ID> [quick|thorough] | check --replay <file>")
        return 2
    prop = argv[0]
    tier = argv[1] if len(argv) > 1 else os.environ.get("VERIF_TIER", "quick")
    if tier not in ("quick", "thorough"):
        print("tier must be quick or thorough")
        return 2
    try:
        env.import_pybads()
        from . import world
        world.install_seams()
        from . import registry
        fn = registry.CHECKS.get(prop)
        if fn is None:
            print(f"HARNESS-ERROR no check registered for {prop}")
            return 2
        return fn(tier)
    except SystemExit:
        raise
    except BaseException as e:  # harness failure is never a pass and never a VIOLATION
        import traceback
        print("HARNESS-ERROR " + repr(e))
        traceback.print_exc()
        return 2


if __name__ == "__main__":
    sys.exit(main(sys.argv[1:]))
