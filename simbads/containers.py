"""Container machine (component part of C19): operation histories on
IterationHistory and OptimizeResult against a dict-of-lists model."""
import copy

import numpy as np

from .prng import stream

KEYS = ["iter", "x", "fval", "gp", "misc"]


def _val(spec):
    k = spec[0]
    if k == "int":
        return int(spec[1])
    if k == "float":
        return float(spec[1])
    if k == "arr":
        return np.array(spec[1], dtype=float)
    if k == "list":
        return list(spec[1])
    if k == "dict":
        return {"a": list(spec[1])}
    if k == "objarr":
        a = np.empty(len(spec[1]) + 1, dtype=object)
        for j, e in enumerate(spec[1]):
            a[j] = [e, e + 1] if j % 2 == 0 else {"a": [e]}
        a[len(spec[1])] = np.array([1.0, 2.0])
        return a
    if k == "none":
        return None
    if k == "str":
        return str(spec[1])
    raise ValueError(k)


def _eq(a, b):
    if a is None or b is None:
        return a is None and b is None
    if isinstance(a, np.ndarray) or isinstance(b, np.ndarray):
        if not (isinstance(a, np.ndarray) and isinstance(b, np.ndarray) and a.shape == b.shape and a.dtype == b.dtype):
            return False
        if a.dtype == object:
            return all(_eq(x, y) for x, y in zip(a.ravel().tolist(), b.ravel().tolist()))
        return np.array_equal(a, b)
    if isinstance(a, dict):
        return isinstance(b, dict) and a.keys() == b.keys() and all(_eq(a[k], b[k]) for k in a)
    if isinstance(a, (list, tuple)):
        return type(a) == type(b) and len(a) == len(b) and all(_eq(x, y) for x, y in zip(a, b))
    return type(a) == type(b) and a == b


def _mutate(v):
    """Mutate a value in place (what a caller may do after handing it over)."""
    if isinstance(v, np.ndarray) and v.dtype == object and v.size:
        # mutate the *elements* in place (a shallow copy of the array would share them)
        for e in v.ravel().tolist():
            _mutate(e)
        return True
    if isinstance(v, np.ndarray) and v.size:
        v += 1000.0
        return True
    if isinstance(v, list) and v:
        v[0] = "mutated"
        return True
    if isinstance(v, dict):
        v["a"] = "mutated"
        return True
    return False


def execute_history(h):
    """IterationHistory machine. Returns list of (cls, msg, op_index)."""
    from pybads.utils.iteration_history import IterationHistory
    probs = []
    ih = IterationHistory(list(h["keys"]))
    model = {k: None for k in h["keys"]}
    for i, op in enumerate(h["ops"]):
        k = op["op"]
        try:
            if k == "record":
                key, it = op["key"], op["iter"]
                v = _val(op["val"])
                bad = it < 0 or key not in model
                try:
                    ih.record(key, v, it)
                    raised = False
                except ValueError:
                    raised = True
                if bad != raised:
                    probs.append(("history-validation", f"record(key={key!r}, iteration={it}) {'did not raise' if bad else 'raised'} ValueError", i))
                if not bad and not raised:
                    if model[key] is None:
                        model[key] = [None]
                    while len(model[key]) <= it:
                        model[key].append(None)
                    model[key][it] = copy.deepcopy(v)
                    if op.get("mutate"):
                        _mutate(v)
            elif k == "record_iteration":
                it = op["iter"]
                kv = {kk: _val(vv) for kk, vv in op["kv"].items()}
                bad = it < 0 or any(kk not in model for kk in kv)
                before = copy.deepcopy(model)
                try:
                    ih.record_iteration(kv, it)
                    raised = False
                except ValueError:
                    raised = True
                if bad != raised:
                    probs.append(("history-validation", f"record_iteration(keys={sorted(kv)}, iteration={it}) {'did not raise' if bad else 'raised'} ValueError", i))
                if it >= 0:
                    # keys before the first unknown key are recorded (dict order) - the statement
                    # does not fix this; the model follows insertion order like the container
                    for kk, vv in kv.items():
                        if kk not in model:
                            break
                        if model[kk] is None:
                            model[kk] = [None]
                        while len(model[kk]) <= it:
                            model[kk].append(None)
                        model[kk][it] = copy.deepcopy(vv)
                    if op.get("mutate"):
                        for vv in kv.values():
                            _mutate(vv)
            elif k == "setitem":
                key = op["key"]
                v = _val(op["val"])
                bad = key not in model
                try:
                    ih[key] = v
                    raised = False
                except ValueError:
                    raised = True
                if bad != raised:
                    probs.append(("history-validation", f"history[{key!r}] = ... {'did not raise' if bad else 'raised'} ValueError", i))
                if not bad and not raised:
                    model[key] = ("raw", copy.deepcopy(v))
                    if op.get("mutate"):
                        _mutate(v)
            elif k == "read_mutate":
                # mutate what record() was given earlier is covered above; here: read back
                pass
        except Exception as e:   # noqa
            probs.append(("history-raised", f"operation {op} raised {type(e).__name__}: {e}", i))
            break
        # compare
        for key in model:
            m = model[key]
            got = ih[key]
            if m is None:
                if got is not None:
                    probs.append(("history-mismatch", f"key {key}: expected None, container has {got!r}", i))
            elif isinstance(m, tuple) and m[0] == "raw":
                if not _eq(got, m[1]):
                    probs.append(("history-mismatch", f"key {key}: stored value differs from the value that was set", i))
            else:
                if got is None or len(got) != len(m) or not all(_eq(a, b) for a, b in zip(list(got), m)):
                    probs.append(("history-mismatch", f"key {key}: recorded sequence differs from the model (len {None if got is None else len(got)} vs {len(m)})", i))
        if set(ih.keys()) != set(model.keys()):
            probs.append(("history-keys", "container key set changed", i))
        if probs:
            break
    return probs


def execute_result(h):
    """OptimizeResult machine."""
    from pybads.bads.optimize_result import OptimizeResult
    probs = []
    res = OptimizeResult()
    model = {}
    for i, op in enumerate(h["ops"]):
        k = op["op"]
        key = op["key"]
        known = key in OptimizeResult._keys
        if k == "set":
            v = _val(op["val"])
            try:
                res[key] = v
                raised = False
            except ValueError:
                raised = True
            except Exception as e:   # noqa
                probs.append(("result-raised", f"res[{key!r}] = ... raised {type(e).__name__}", i))
                break
            if known == raised:
                probs.append(("result-unknown-key", f"setting key {key!r} {'raised' if known else 'was accepted'}", i))
            if known and not raised:
                model[key] = copy.deepcopy(v)
                if op.get("mutate"):
                    _mutate(v)
        elif k == "setattr":
            # attribute-style assignment: whatever it does (plain instance attribute, write-through, or an
            # exception), it may never create an unknown field, and a field it writes must hold a copy
            v = _val(op["val"])
            try:
                setattr(res, key, v)
            except Exception:   # noqa
                pass
            if not known and dict.__contains__(res, key):
                probs.append(("result-unknown-key", f"attribute assignment created the unknown field {key!r}", i))
                break
            if known and dict.__contains__(res, key):
                cur = dict.__getitem__(res, key)
                if not (key in model and _eq(cur, model[key])):
                    if _eq(cur, v):
                        model[key] = copy.deepcopy(v)      # written through as a field
                    else:
                        probs.append(("result-read", f"attribute assignment left a wrong value in field {key!r}", i))
            if op.get("mutate"):
                _mutate(v)
            vars(res).pop(key, None)       # drop a plain instance attribute so that it does not shadow later reads
        elif k == "get":
            for how in ("key", "attr"):
                try:
                    got = res[key] if how == "key" else getattr(res, key)
                    ok = key in model and _eq(got, model[key])
                    if not ok:
                        probs.append(("result-read", f"reading {key!r} by {how} returned a wrong value", i))
                except (KeyError, AttributeError) as e:
                    if key in model:
                        probs.append(("result-read", f"reading stored {key!r} by {how} raised {type(e).__name__}", i))
                    elif how == "attr" and not isinstance(e, AttributeError):
                        probs.append(("result-read", f"unknown attribute {key!r} raised {type(e).__name__} instead of AttributeError", i))
        for kk, vv in model.items():
            if not _eq(res[kk], vv):
                probs.append(("result-not-a-copy", f"stored field {kk!r} changed after the caller modified the value it had passed", i))
        if probs:
            break
    return probs


def gen_value(rng):
    k = rng.choice(["int", "float", "arr", "arr", "list", "dict", "none", "str", "objarr"])
    if k == "objarr":
        return ["objarr", [rng.randrange(0, 9) for _ in range(rng.randrange(1, 4))]]
    if k == "int":
        return ["int", rng.randrange(-5, 50)]
    if k == "float":
        return ["float", round(rng.uniform(-10, 10), 4)]
    if k == "arr":
        return ["arr", [round(rng.uniform(-1, 1), 3) for _ in range(rng.randrange(0, 4))]]
    if k in ("list", "dict"):
        return [k, [rng.randrange(0, 9) for _ in range(rng.randrange(0, 4))]]
    if k == "none":
        return ["none"]
    return ["str", rng.choice(["a", "bb", ""])]


def gen_case(seed, i):
    rng = stream(seed, f"cont/{i}")
    if rng.random() < 0.65:
        keys = rng.sample(KEYS, rng.randrange(1, len(KEYS) + 1))
        ops = []
        raw = set()     # keys overwritten with a plain value: not recordable afterwards
        for _ in range(rng.randrange(1, 25)):
            t = rng.random()
            rec_keys = [k for k in keys if k not in raw] or None
            it = rng.randrange(0, 8) if rng.random() < 0.9 else rng.randrange(-3, 0)
            if t < 0.6 and rec_keys:
                key = rng.choice(rec_keys) if rng.random() < 0.9 else rng.choice(["nokey", "X", ""])
                ops.append(dict(op="record", key=key, iter=it, val=gen_value(rng), mutate=rng.random() < 0.5))
            elif t < 0.8 and rec_keys:
                kv = {(rng.choice(rec_keys) if rng.random() < 0.9 else "nokey"): gen_value(rng) for _ in range(rng.randrange(1, 4))}
                ops.append(dict(op="record_iteration", kv=kv, iter=it, mutate=rng.random() < 0.5))
            else:
                key = rng.choice(keys) if rng.random() < 0.9 else rng.choice(["nokey", "X", ""])
                ops.append(dict(op="setitem", key=key, val=gen_value(rng), mutate=rng.random() < 0.5))
                raw.add(key)
        return dict(kind="history", keys=keys, ops=ops)
    from_keys = ["x", "x0", "fval", "fsd", "yval_vec", "ysd_vec", "message", "func_count", "mesh_size", "fun", "version", "status"]
    ops = []
    for _ in range(rng.randrange(1, 20)):
        key = rng.choice(from_keys) if rng.random() < 0.85 else rng.choice(["bogus", "X", "fvall", "keys_"])
        t = rng.random()
        if t < 0.55:
            ops.append(dict(op="set", key=key, val=gen_value(rng), mutate=rng.random() < 0.5))
        elif t < 0.7:
            ops.append(dict(op="setattr", key=key, val=gen_value(rng), mutate=rng.random() < 0.5))
        else:
            ops.append(dict(op="get", key=key))
    return dict(kind="result", ops=ops)


def execute(case):
    return execute_history(case) if case["kind"] == "history" else execute_result(case)


def run_batch(arg):
    seed, lo, hi = arg
    out = dict(n=0, ops=0, problems=[], shapes=set(), samples=[])
    for i in range(lo, hi):
        c = gen_case(seed, i)
        probs = execute(c)
        out["n"] += 1
        out["ops"] += len(c["ops"])
        out["shapes"].add((c["kind"], tuple(sorted({o["op"] + ("+mut" if o.get("mutate") else "") for o in c["ops"]}))))
        if probs and len(out["problems"]) < 10:
            out["problems"].append((i, c, probs))
        if not out["samples"] and len(c["ops"]) <= 4:
            out["samples"].append(c)
    out["shapes"] = sorted(map(str, out["shapes"]))
    return out


def shrink(case, cls):
    def bad(c):
        try:
            return any(p[0] == cls for p in execute(c))
        except Exception:
            return False
    cur = copy.deepcopy(case)
    changed = True
    runs = 0
    while changed and runs < 300:
        changed = False
        for i in range(len(cur["ops"])):
            cand = copy.deepcopy(cur)
            del cand["ops"][i]
            runs += 1
            if cand["ops"] and bad(cand):
                cur = cand
                changed = True
                break
    return cur, dict(runs=runs, ops_before=len(case["ops"]), ops_after=len(cur["ops"]))


def replay(prop, cls, case):
    probs = execute(case)
    return any(p[0] == cls for p in probs), dict(problems=probs[:5])
