"""Delta-debugging over scenarios: drop faults, options, constraint, noise,
coordinates; lower budgets; simplify the target and the clock - while the same
violation class persists."""
import copy
import json
import time

from . import pool


def _size(scn):
    return len(json.dumps(scn, sort_keys=True, default=str))


def _drop_coord(scn, i):
    D = scn["D"]
    if D <= 1:
        return None
    s = copy.deepcopy(scn)
    s["D"] = D - 1
    for k in ("lb", "ub", "plb", "pub", "x0"):
        if s.get(k) is not None:
            del s[k][i]
    t = s["target"]
    for k in ("c", "ev", "w", "g"):
        if isinstance(t.get(k), list) and len(t[k]) == D:
            del t[k][i]
    t.pop("rot_seed", None)
    n = s.get("noise")
    if n and isinstance(n.get("c"), list) and len(n["c"]) == D:
        del n["c"][i]

    def dc(c):
        if c is None:
            return
        for k in ("c", "a"):
            if isinstance(c.get(k), list) and len(c[k]) == D:
                del c[k][i]
        for p in c.get("parts", []):
            dc(p)
    dc(s.get("cons"))
    return s


def candidates(scn):
    """Yield (description, smaller scenario)."""
    out = []
    # faults
    fl = scn.get("faults") or []
    for i in range(len(fl)):
        s = copy.deepcopy(scn)
        del s["faults"][i]
        out.append((f"drop fault {i}", s))
        if fl[i].get("len", 1) > 1:
            s = copy.deepcopy(scn)
            s["faults"][i]["len"] = fl[i]["len"] - 1
            out.append((f"shorten fault {i}", s))
    # history ops
    hl = scn.get("history") or []
    for i in range(len(hl)):
        s = copy.deepcopy(scn)
        del s["history"][i]
        out.append((f"drop history op {i}", s))
    # options
    for k in list(scn.get("options", {}).keys()):
        if k in ("random_seed",):
            continue
        s = copy.deepcopy(scn)
        del s["options"][k]
        if k == "specify_target_noise":
            if s.get("noise"):
                s["noise"]["mode"] = "homo"
        out.append((f"drop option {k}", s))
    b = scn.get("options", {}).get("max_fun_evals")
    if b and b > 6:
        for nb in (b // 2, (3 * b) // 4, b - 1):
            if 3 <= nb < b:
                s = copy.deepcopy(scn)
                s["options"]["max_fun_evals"] = nb
                out.append((f"budget {nb}", s))
    mi = scn.get("options", {}).get("max_iter")
    if mi and mi > 1:
        s = copy.deepcopy(scn)
        s["options"]["max_iter"] = mi - 1
        out.append(("max_iter-1", s))
    # environment
    if scn.get("cons"):
        s = copy.deepcopy(scn)
        s["cons"] = None
        if s.get("x0_class") in ("infeasible", "near_cons"):
            s["x0_class"] = "on_bound"
        out.append(("drop constraint", s))
    if scn.get("noise"):
        s = copy.deepcopy(scn)
        s["noise"] = None
        for k in ("specify_target_noise", "uncertainty_handling", "noise_final_samples", "noise_size"):
            s["options"].pop(k, None)
        out.append(("drop noise", s))
    if scn.get("clock", {}).get("mode") != "const" or scn.get("clock", {}).get("jumps"):
        s = copy.deepcopy(scn)
        s["clock"] = {"mode": "const"}
        out.append(("constant clock", s))
    fam = scn["target"]["family"]
    D = scn["D"]
    if fam == "adversary":
        sc = scn["target"]["script"]
        if len(sc) > 1:
            for ns in (sc[: len(sc) // 2], sc[1:], sc[:-1]):
                s = copy.deepcopy(scn)
                s["target"]["script"] = ns
                out.append(("shorter script", s))
    if fam not in ("const",):
        s = copy.deepcopy(scn)
        s["target"] = {"family": "const", "value": 1.0}
        out.append(("constant target", s))
    if fam not in ("quad", "const") or scn["target"].get("rot_seed") is not None:
        c = scn["target"].get("c")
        if not (isinstance(c, list) and len(c) == D):
            ref = scn.get("x0") or scn.get("plb") or [0.0] * D
            c = list(ref)
        s = copy.deepcopy(scn)
        s["target"] = {"family": "quad", "c": c, "ev": [1.0] * D, "rot_seed": None}
        out.append(("plain quadratic target", s))
    for i in range(D):
        s = _drop_coord(scn, i)
        if s is not None:
            out.append((f"drop coordinate {i}", s))
    if scn.get("x0") is None and scn.get("plb") is not None:
        pass
    if scn.get("monitors"):
        s = copy.deepcopy(scn)
        s["monitors"] = []
        out.append(("drop monitors", s))
    return out


def shrink(scn, run_fn, judge, max_runs=80, max_seconds=240, timeout=180, workers=None):
    """Greedy parallel delta debugging. `judge(rec)` says whether the violation class persists."""
    t0 = time.time()
    runs = 0
    cur = scn
    steps = []
    before = _size(scn)
    improved = True
    while improved and runs < max_runs and time.time() - t0 < max_seconds:
        improved = False
        cands = candidates(cur)
        if not cands:
            break
        cands = cands[: max(1, max_runs - runs)]
        res = pool.run_tasks(run_fn, [c[1] for c in cands], timeout=timeout, workers=workers)
        runs += len(cands)
        ok = []
        for (desc, s), (st, rec) in zip(cands, res):
            if st == "ok" and rec is not None:
                try:
                    if judge(rec):
                        ok.append((_size(s), desc, s))
                except Exception:
                    pass
        if ok:
            ok.sort(key=lambda t: t[0])
            _, desc, cur = ok[0]
            steps.append(desc)
            improved = True
    return cur, {"runs": runs, "steps": steps, "size_before": before, "size_after": _size(cur),
                 "seconds": round(time.time() - t0, 1)}
