"""The log machine: operation histories on a real FunctionLogger against an
independent reference model (C12), with candidate-filter operations on the
resulting log states (component part of C17).

A history is an explicit JSON-able dict {cfg, ops}; executing it is a pure
function of the history and the code, so histories are their own replay files.
"""
import copy
import json
import time

import numpy as np

from . import world as W
from .prng import stream

GRID = [-1.0, -0.75, -0.5, -0.25, 0.0, 0.25, 0.5, 0.75, 1.0]


# ---------------------------------------------------------------------------
# reference model
# ---------------------------------------------------------------------------

class RefLogger:
    def __init__(self, level, noise_flag):
        self.level = level
        self.noise_flag = noise_flag
        self.recs = []            # dict(x, x_orig, y, y_orig, s, n)
        self.func_count = 0
        self.cache_count = 0

    def find(self, x):
        return [i for i, r in enumerate(self.recs) if np.array_equal(r["x"], x)]

    def observe(self, x, x_orig, y, sd, record):
        """A valid evaluation through __call__."""
        self.func_count += 1
        return self._record(x, x_orig, y, sd if self.level == 2 else None, record)

    def add(self, x, x_orig, y, sd):
        self.cache_count += 1
        if self.noise_flag:
            sd = 1 if sd is None else sd
        else:
            sd = None
        return self._record(x, x_orig, y, sd, True)

    def _record(self, x, x_orig, y, sd, record):
        idx = self.find(x)
        if not record:
            if idx:
                self.recs[idx[-1]]["n"] += 1
                return idx[-1]
            return None
        if sd is not None and idx:
            r = self.recs[idx[0]]
            tn, t1 = 1.0 / r["s"] ** 2, 1.0 / sd ** 2
            r["y"] = (tn * r["y"] + t1 * y) / (tn + t1)
            r["s"] = 1.0 / np.sqrt(tn + t1)
            r["n"] += 1
            return idx[0]
        self.recs.append(dict(x=x.copy(), x_orig=x_orig.copy(), y=y, y_orig=y, s=sd, n=1))
        return len(self.recs) - 1


# ---------------------------------------------------------------------------
# executor
# ---------------------------------------------------------------------------

def make_transformer(cfg):
    tr = cfg.get("transform", "none")
    if tr == "none":
        return None
    from pybads.variable_transformer import VariableTransformer
    D = cfg["D"]
    if tr == "linear":
        lb, ub, plb, pub = [-10.0] * D, [10.0] * D, [-3.0] * D, [5.0] * D
    elif tr == "log":
        lb, ub, plb, pub = [1e-3] * D, [1e3] * D, [1e-2] * D, [10.0] * D
    else:  # mixed
        lb = [1e-3 if i % 2 == 0 else -10.0 for i in range(D)]
        ub = [1e3 if i % 2 == 0 else 10.0 for i in range(D)]
        plb = [1e-2 if i % 2 == 0 else -3.0 for i in range(D)]
        pub = [10.0 if i % 2 == 0 else 5.0 for i in range(D)]
    a = lambda v: np.array([v], dtype=float)
    return VariableTransformer(D, a(lb), a(ub), a(plb), a(pub))


def snapshot(fl):
    d = dict(X_orig=fl.X_orig.copy(), X=fl.X.copy(), Y_orig=fl.Y_orig.copy(), Y=fl.Y.copy(), n_evals=fl.n_evals.copy(),
             X_flag=fl.X_flag.copy(), fun_eval_time=fl.fun_eval_time.copy(), Xn=fl.Xn, X_max_idx=fl.X_max_idx,
             func_count=fl.func_count, cache_count=fl.cache_count)
    if fl.noise_flag:
        d["S"] = fl.S.copy()
    return d


def same_bits(a, b):
    return a.shape == b.shape and a.tobytes() == b.tobytes()


def execute(hist, collect=None):
    """Execute a history. Returns dict(problems=[(prop, cls, msg, op_index)], stats)."""
    from pybads.function_logger import FunctionLogger, contraints_check
    cfg = hist["cfg"]
    D, level = cfg["D"], cfg["level"]
    vt = make_transformer(cfg)
    state = {"next": None}

    def target(x):
        nx = state["next"]
        state["seen_x"] = np.array(x, dtype=float, copy=True)
        if nx["fault"] is not None:
            return _faulty(nx["fault"], nx)
        if level == 2:
            return (nx["y"], nx["sd"])
        return nx["y"]

    fl = FunctionLogger(target, D, level > 0, level, cache_size=cfg["cache_size"], variable_transformer=vt)
    ref = RefLogger(level, level > 0)
    problems = []
    stats = dict(ops=0, merges=0, growths=0, norecord_hits=0, norecord_miss=0, faults=0, partial=0, repeats=0, adds=0, filters=0,
                 filter_hits=0)

    def P(prop, cls, msg, i):
        problems.append((prop, cls, msg, i))

    for i, op in enumerate(hist["ops"]):
        stats["ops"] += 1
        before = snapshot(fl)
        n_before = len(ref.recs)
        kind = op["op"]
        if kind in ("call", "fault"):
            x = np.array(op["x"], dtype=float)
            x_orig = vt.inverse_transf(x.reshape(1, -1))[0] if vt is not None else x
            state["next"] = dict(y=op.get("y"), sd=op.get("sd"), fault=op.get("fault"))
            cap0 = fl.X.shape[0]
            try:
                ret = fl(x.copy(), record_duplicate_data=op.get("record", True))
                raised = None
            except Exception as e:   # noqa
                ret, raised = None, e
            if not np.array_equal(state.get("seen_x"), x_orig):
                P("C12", "target-got-other-point", "the target did not receive the original-space image of the evaluated point", i)
            if kind == "fault":
                stats["faults"] += 1
                after = snapshot(fl)
                if raised is None:
                    P("C12", "fault-not-raised", f"invalid evaluation ({op['fault']}) did not raise", i)
                for k in before:
                    a, b = before[k], after[k]
                    eq = same_bits(a, b) if isinstance(a, np.ndarray) else a == b
                    if not eq:
                        P("C12", "fault-changed-log", f"a failed evaluation changed the log field {k}", i)
                        break
                continue
            if raised is not None:
                P("C12", "valid-call-raised", f"a valid evaluation raised {type(raised).__name__}: {raised}", i)
                break
            touched = ref.observe(x, x_orig, op["y"], op.get("sd"), op.get("record", True))
            if fl.X.shape[0] != cap0:
                stats["growths"] += 1
            if not op.get("record", True):
                stats["norecord_hits" if touched is not None else "norecord_miss"] += 1
            elif len(ref.recs) == n_before:
                stats["merges"] += 1
            # returned value: the merged value for a merge, else the observed value
            if op.get("record", True) and touched is not None:
                want = ref.recs[touched]["y"] if len(ref.recs) == n_before else op["y"]
                got = float(np.asarray(ret[0]).reshape(-1)[0])
                if not np.isclose(got, want, rtol=1e-12, atol=0):
                    P("C12", "returned-value", "value returned by the log differs from the recorded value", i)
                if ret[2] != touched:
                    P("C12", "returned-index", f"log returned index {ret[2]}, record is {touched}", i)
        elif kind == "add":
            stats["adds"] += 1
            x = np.array(op["x"], dtype=float)
            x_orig = vt.inverse_transf(x.reshape(1, -1))[0] if vt is not None else x
            try:
                fl.add(x.copy(), op["y"], op.get("sd"))
            except Exception as e:   # noqa
                P("C12", "add-raised", f"adding a valid pre-evaluated point raised {type(e).__name__}: {e}", i)
                break
            touched = ref.add(x, x_orig, op["y"], op.get("sd"))
            if len(ref.recs) == n_before:
                stats["merges"] += 1
        elif kind == "filter":
            stats["filters"] += 1
            U = np.array(op["U"], dtype=float).reshape(-1, D)
            lb, ub = np.array([op["lb"]], dtype=float), np.array([op["ub"]], dtype=float)
            n_logged = fl.Xn + 1
            Xl = fl.X[:n_logged].copy()
            cons_fn, feas_rows = None, None
            if op.get("cons") and vt is not None:
                # non-box constraint given in internal coordinates (evaluated through the transform, the same function
                # for the filter and for the oracle): a cube cut out around the origin, or a half-space
                cs = op["cons"]

                def viol(X, cs=cs):
                    Ui = np.atleast_2d(vt(np.atleast_2d(np.asarray(X, dtype=float))))
                    if cs["kind"] == "hole":
                        return cs["r"] - np.max(np.abs(Ui), axis=1)
                    return Ui[:, cs["j"] % D] * cs["sign"] - cs["thr"]
                if cs.get("ret") == "bool":
                    cons_fn = lambda X: viol(X) > 0
                else:
                    cons_fn = viol

                def feas_rows(out_):
                    o2 = np.atleast_2d(out_)
                    v_ = viol(vt.inverse_transf(o2))
                    bad = np.nonzero(v_ > 0)[0]
                    return o2[bad[0]] if bad.size else None
            try:
                out = contraints_check(U.copy(), lb, ub, op["tol"], fl, op["proj"], cons_fn)
            except Exception as e:   # noqa
                P("C17", "filter-raised", f"candidate filter raised {type(e).__name__}: {e}", i)
                continue
            probs, hits = W.filter_problems(U, lb, ub, op["tol"], Xl, op["proj"], out, feas_rows)
            stats["filter_hits"] += len(hits)
            for cls, msg, _ in probs:
                P("C17", cls, msg, i)
            after = snapshot(fl)
            for k in before:
                a, b = before[k], after[k]
                eq = same_bits(a, b) if isinstance(a, np.ndarray) else a == b
                if not eq:
                    P("C12", "filter-changed-log", f"the candidate filter changed the log field {k}", i)
            continue
        else:
            raise ValueError(kind)
        # ---- compare the whole log with the model
        bad = compare(fl, ref, level)
        for cls, msg in bad:
            P("C12", cls, msg, i)
        # ---- untouched rows bit-identical
        after = snapshot(fl)
        n0 = before["Xn"] + 1
        for r in range(n0):
            if r == touched:
                continue
            for k in ("X_orig", "X", "Y_orig", "Y", "n_evals", "fun_eval_time") + (("S",) if fl.noise_flag else ()):
                if before[k][r].tobytes() != after[k][r].tobytes():
                    P("C12", "other-record-altered", f"operation {kind} altered field {k} of an unrelated record {r}", i)
                    break
        if bad:
            break
    return dict(problems=problems, stats=stats, n_records=len(ref.recs))


def _faulty(kind, nx):
    if kind.startswith("raise"):
        raise RuntimeError("injected target failure")
    v = {"nan": np.nan, "inf": np.inf, "complex": complex(1, 2), "vector": np.array([1.0, 2.0]), "none": None}
    if kind.startswith("val:"):
        val = v[kind[4:]]
        return (val, 0.5) if nx.get("sd") is not None else val
    if kind.startswith("sd:"):
        return (1.0, {"zero": 0.0, "neg": -1.0, "nan": np.nan}[kind[3:]])
    if kind == "form:scalar":
        return 1.0
    raise ValueError(kind)


def compare(fl, ref, level):
    out = []
    n = len(ref.recs)
    if fl.Xn != n - 1:
        out.append(("record-count", f"log holds {fl.Xn + 1} records, model {n}"))
        return out
    if fl.func_count != ref.func_count:
        out.append(("func-count", f"func_count {fl.func_count}, model {ref.func_count}"))
    if fl.cache_count != ref.cache_count:
        out.append(("cache-count", f"cache_count {fl.cache_count}, model {ref.cache_count}"))
    if fl.X_max_idx != n - 1:
        out.append(("x-max-idx", f"X_max_idx {fl.X_max_idx}, expected {n - 1}"))
    cap = fl.X.shape[0]
    lens = {fl.X_orig.shape[0], fl.Y.shape[0], fl.Y_orig.shape[0], fl.n_evals.shape[0], fl.X_flag.shape[0], fl.fun_eval_time.shape[0]}
    if fl.noise_flag:
        lens.add(fl.S.shape[0])
    if lens != {cap} or cap < n:
        out.append(("array-sizes", f"log arrays have inconsistent sizes {sorted(lens)} (capacity {cap}, records {n})"))
        return out
    for i, r in enumerate(ref.recs):
        if not np.array_equal(fl.X[i], r["x"]):
            out.append(("x-internal", f"record {i}: internal point differs from the evaluated point"))
        if not np.array_equal(fl.X_orig[i], r["x_orig"]):
            out.append(("x-orig", f"record {i}: original-space point differs"))
        if fl.Y_orig[i, 0] != r["y_orig"]:
            out.append(("y-orig", f"record {i}: first observed value {fl.Y_orig[i, 0]!r} != {r['y_orig']!r}"))
        if not np.isclose(fl.Y[i, 0], r["y"], rtol=1e-12, atol=0):
            out.append(("y-value", f"record {i}: value {fl.Y[i, 0]!r}, model {r['y']!r}"))
        if fl.n_evals[i, 0] != r["n"]:
            out.append(("n-evals", f"record {i}: observation count {fl.n_evals[i, 0]}, model {r['n']}"))
        if r["s"] is not None:
            if not np.isclose(fl.S[i, 0], r["s"], rtol=1e-12, atol=0):
                out.append(("sd-value", f"record {i}: SD {fl.S[i, 0]!r}, model {r['s']!r}"))
        if not fl.X_flag[i]:
            out.append(("flag", f"record {i}: not flagged as valid"))
        if out:
            return out
    if np.any(fl.X_flag[n:]) or not np.all(np.isnan(fl.X[n:])) or not np.all(np.isnan(fl.Y[n:])) or np.any(fl.n_evals[n:] != 0):
        out.append(("tail-not-empty", "rows beyond the last record are not empty"))
    return out


# ---------------------------------------------------------------------------
# seeded generator
# ---------------------------------------------------------------------------

def gen_history(seed, index):
    rng = stream(seed, f"logm/{index}")
    D = rng.choice([1, 2, 2, 3, 4])
    level = rng.choice([0, 0, 1, 2, 2, 2])
    cfg = dict(D=D, level=level, cache_size=rng.randrange(1, 9), transform=rng.choice(["none", "none", "linear", "log", "mixed"]))
    n_ops = rng.randrange(1, 41)
    pts = []
    ops = []
    want_filters = rng.random() < 0.5
    want_faults = rng.random() < 0.5
    want_adds = rng.random() < 0.4
    yctr = [0]

    def newy():
        yctr[0] += 1
        # unique values so that each logged value is attributable to one observation
        return float(f"{rng.uniform(-5, 5):.6f}") + yctr[0] * 1e-3

    def newpoint():
        return [rng.choice(GRID) for _ in range(D)]

    def partial(p):
        q = list(p)
        k = rng.randrange(1, D + 1) if D > 1 else 1
        for j in rng.sample(range(D), k if k < D or D == 1 else D - 1) if D > 1 else [0]:
            alt = [g for g in GRID if g != q[j]]
            q[j] = rng.choice(alt)
        return q

    def near(p):
        # a distinct point a hair away from a logged one in every (or some) coordinate: must get a record of its own
        q = list(p)
        for j in range(D):
            if rng.random() < 0.8:
                q[j] = q[j] + rng.choice([1e-7, -1e-7, 1e-9, -1e-9, 3e-12]) * max(1.0, abs(q[j]))
        if q == list(p):
            q[0] = q[0] + 1e-9
        return q

    for _ in range(n_ops):
        t = rng.random()
        sd = None
        if level == 2:
            # mostly ordinary SDs, sometimes very small or very large (valid: finite and positive)
            sd = float(f"{10 ** rng.uniform(-1.5, 0.5):.4g}") if rng.random() < 0.85 else rng.choice([2e-9, 3e-12, 1e-15, 7e-8, 1e6])
        if want_filters and t < 0.12:
            m = rng.randrange(1, 8)
            U = []
            tol = rng.choice([1e-6, 1e-3, 0.01, 0.25])
            for _ in range(m):
                c = rng.random()
                if pts and c < 0.35:
                    U.append(list(rng.choice(pts)))
                elif pts and c < 0.55:
                    p = list(rng.choice(pts))
                    j = rng.randrange(D)
                    p[j] += rng.choice([0.2, 0.45, 0.55, 1.5, -0.2, -0.45, -0.55]) * tol
                    U.append(p)
                elif c < 0.62:
                    # a hair beyond / exactly on / a hair inside a face of the box
                    p = [rng.choice(GRID) for _ in range(D)]
                    j = rng.randrange(D)
                    p[j] = rng.choice([-1.0, 1.0]) * (1.0 + rng.choice([1e-15, 1e-12, 1e-9, 1e-6, 1e-5, 0.0, -1e-9, -1e-6]))
                    U.append(p)
                elif c < 0.7:
                    U.append([rng.choice([-1.5, 1.5, 2.0]) if rng.random() < 0.5 else rng.choice(GRID) for _ in range(D)])
                else:
                    U.append(newpoint())
            if U and rng.random() < 0.3:
                U.append(list(U[0]))
            fop = dict(op="filter", U=U, lb=[-1.0] * D, ub=[1.0] * D, tol=tol, proj=rng.random() < 0.5)
            if cfg["transform"] != "none" and rng.random() < 0.45:
                if rng.random() < 0.6:
                    fop["cons"] = dict(kind="hole", r=rng.choice([0.1, 0.3, 0.6]), ret=rng.choice(["float", "bool"]))
                    if rng.random() < 0.5:
                        # candidate sets made of (or containing) the origin itself
                        fop["U"] = [[0.0] * D] if rng.random() < 0.5 else U + [[0.0] * D]
                else:
                    fop["cons"] = dict(kind="half", j=rng.randrange(D), sign=rng.choice([-1, 1]), thr=rng.choice([0.0, 0.3, -0.3]), ret=rng.choice(["float", "bool"]))
            ops.append(fop)
            continue
        if want_faults and t < 0.22:
            kinds = ["raise", "val:nan", "val:inf", "val:complex", "val:vector", "val:none"]
            if level == 2:
                kinds += ["sd:zero", "sd:neg", "sd:nan", "form:scalar"]
            x = list(rng.choice(pts)) if pts and rng.random() < 0.5 else newpoint()
            ops.append(dict(op="fault", x=x, fault=rng.choice(kinds), sd=sd, record=rng.random() < 0.8))
            continue
        c = rng.random()
        if pts and c < 0.3:
            x = list(rng.choice(pts))
        elif pts and c < 0.6:
            x = partial(rng.choice(pts))
        elif pts and c < 0.68:
            x = near(rng.choice(pts))
        else:
            x = newpoint()
        if want_adds and rng.random() < 0.25:
            is_repeat = x in pts
            if is_repeat and level == 1:
                x = newpoint()
                while x in pts and len(pts) < len(GRID) ** D:
                    x = newpoint()
                if x in pts:
                    continue
            ops.append(dict(op="add", x=x, y=newy(), sd=(sd if rng.random() < 0.8 else None) if level > 0 else None))
            if x not in pts:
                pts.append(x)
            continue
        record = rng.random() < 0.8
        ops.append(dict(op="call", x=x, y=newy(), sd=sd, record=record))
        if record and x not in pts:
            pts.append(x)
        elif record and level < 2:
            pass
    return dict(cfg=cfg, ops=ops)


def shape_of(hist):
    """Abstract shape of a history (for the distinct-states measure)."""
    return (hist["cfg"]["D"], hist["cfg"]["level"], hist["cfg"]["transform"], min(hist["cfg"]["cache_size"], 4),
            tuple(sorted({o["op"] + ("" if o.get("record", True) else "-norec") for o in hist["ops"]})))


# ---------------------------------------------------------------------------
# batch worker, shrinking, replay
# ---------------------------------------------------------------------------

def run_batch(arg):
    seed, lo, hi = arg
    out = dict(n=0, ops=0, stats={}, problems=[], shapes=set(), states=set(), samples=[])
    for i in range(lo, hi):
        h = gen_history(seed, i)
        r = execute(h)
        out["n"] += 1
        for k, v in r["stats"].items():
            out["stats"][k] = out["stats"].get(k, 0) + v
        out["shapes"].add(shape_of(h))
        out["states"].add((h["cfg"]["level"], r["n_records"], r["stats"]["merges"] > 0, r["stats"]["growths"], r["stats"]["norecord_hits"] > 0))
        if r["problems"] and len(out["problems"]) < 20:
            out["problems"].append((i, h, r["problems"]))
        if len(out["samples"]) < 1 and len(h["ops"]) <= 6:
            out["samples"].append(h)
    out["shapes"] = sorted(out["shapes"], key=str)
    out["states"] = sorted(out["states"], key=str)
    return out


def shrink_history(hist, prop, cls, max_runs=400):
    def bad(h):
        try:
            return any(p == prop and c == cls for p, c, _, _ in execute(h)["problems"])
        except Exception:
            return False
    cur = copy.deepcopy(hist)
    runs = 0
    steps = 0
    before = len(cur["ops"])
    changed = True
    while changed and runs < max_runs:
        changed = False
        n = len(cur["ops"])
        chunk = max(1, n // 2)
        while chunk >= 1 and runs < max_runs:
            i = 0
            while i < len(cur["ops"]) and runs < max_runs:
                cand = copy.deepcopy(cur)
                del cand["ops"][i:i + chunk]
                runs += 1
                if cand["ops"] and bad(cand):
                    cur = cand
                    changed = True
                    steps += 1
                else:
                    i += chunk
            chunk //= 2
        for key, val in (("transform", "none"), ("cache_size", 8)):
            if cur["cfg"][key] != val:
                cand = copy.deepcopy(cur)
                cand["cfg"][key] = val
                runs += 1
                if bad(cand):
                    cur = cand
                    changed = True
    return cur, dict(runs=runs, steps=steps, ops_before=before, ops_after=len(cur["ops"]))


def replay(prop, cls, case):
    r = execute(case)
    hit = any(p == prop and c == cls for p, c, _, _ in r["problems"])
    return hit, dict(problems=[(p, c, m, i) for p, c, m, i in r["problems"]][:5], stats=r["stats"])


# ---------------------------------------------------------------------------
# second generator: Hypothesis strategies feeding the same executor
# ---------------------------------------------------------------------------

def _resolve(cfg, raw_ops):
    """Turn Hypothesis-drawn raw ops (with references by index) into an explicit history."""
    D, level = cfg["D"], cfg["level"]
    pts, ops = [], []
    yctr = 0
    for r in raw_ops:
        kind, ref, coords, yv, sdv, record, k_share, tol_i, proj = r
        coords = [GRID[c % len(GRID)] for c in coords[:D]] + [0.0] * max(0, D - len(coords))
        if kind in ("call", "add", "fault"):
            if ref is not None and pts:
                base = list(pts[ref % len(pts)])
                if k_share is None:
                    x = base
                else:
                    x = list(base)
                    for j in range(D):
                        if (k_share >> j) & 1 and coords[j] != x[j]:
                            x[j] = coords[j]
            else:
                x = coords
            yctr += 1
            y = float(yv) + yctr * 1e-3
            sd = float(sdv) if level == 2 else None
            if kind == "fault":
                kinds = ["raise", "val:nan", "val:inf", "val:complex", "val:vector", "val:none"] + (["sd:zero", "sd:neg", "sd:nan", "form:scalar"] if level == 2 else [])
                ops.append(dict(op="fault", x=x, fault=kinds[tol_i % len(kinds)], sd=sd, record=record))
            elif kind == "add":
                if level == 1 and x in pts:
                    continue
                ops.append(dict(op="add", x=x, y=y, sd=(float(sdv) if level > 0 and record else None)))
                if x not in pts:
                    pts.append(x)
            else:
                ops.append(dict(op="call", x=x, y=y, sd=sd, record=record))
                if record and x not in pts:
                    pts.append(x)
        else:
            tol = [1e-6, 1e-3, 0.01, 0.25][tol_i % 4]
            U = [list(pts[ref % len(pts)])] if (ref is not None and pts) else []
            U.append(coords)
            if pts:
                p = list(pts[(tol_i + 1) % len(pts)])
                p[0] += 0.45 * tol
                U.append(p)
            ops.append(dict(op="filter", U=U, lb=[-1.0] * D, ub=[1.0] * D, tol=tol, proj=proj))
    return dict(cfg=cfg, ops=ops)


def run_hypothesis(arg):
    """One Hypothesis run (one PRNG value) in a child; returns failing minimal histories."""
    seed, max_examples, props = arg
    import hypothesis
    from hypothesis import given, settings, strategies as st, HealthCheck
    cfg_st = st.fixed_dictionaries(dict(D=st.integers(1, 4), level=st.sampled_from([0, 1, 2, 2]), cache_size=st.integers(1, 8),
                                        transform=st.sampled_from(["none", "linear", "log", "mixed"])))
    op_st = st.tuples(st.sampled_from(["call", "call", "call", "add", "fault", "filter"]), st.one_of(st.none(), st.integers(0, 30)),
                      st.lists(st.integers(0, 8), min_size=4, max_size=4), st.integers(-5000, 5000).map(lambda v: v / 1000.0),
                      st.integers(50, 3000).map(lambda v: v / 1000.0), st.booleans(), st.one_of(st.none(), st.integers(1, 14)),
                      st.integers(0, 9), st.booleans())
    failures = []
    stats = dict(examples=0, ops=0)

    @hypothesis.seed(seed)
    @settings(max_examples=max_examples, database=None, deadline=None, report_multiple_bugs=False,
              suppress_health_check=list(HealthCheck), derandomize=False)
    @given(cfg_st, st.lists(op_st, min_size=1, max_size=40))
    def prop(cfg, raw):
        h = _resolve(cfg, raw)
        if not h["ops"]:
            return
        stats["examples"] += 1
        stats["ops"] += len(h["ops"])
        r = execute(h)
        bad = [p for p in r["problems"] if p[0] in props and not (p[0] == "C17" and p[1] == "filter-already-evaluated")]
        if bad:
            prop.last = (h, bad)
            raise AssertionError(bad[0][1])
    try:
        prop()
    except AssertionError:
        h, bad = prop.last
        failures.append((h, [(p, c, m, i) for p, c, m, i in bad]))
    return dict(stats=stats, failures=failures, seed=seed)
