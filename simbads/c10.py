"""C10: target failures and invalid values surface immediately and unchanged.

Fault enumeration: because a run is a pure function of its scenario, a fault
placed at target call k of a re-run lands after exactly the same k-1 calls."""
import collections
import copy
import json
import time

from . import gen, harness, pool, run, runlevel
from .prng import stream

RAISES = ["raise:Injected", "raise:RuntimeError", "raise:LinAlgError", "raise:ZeroDivisionError",
          "raise:ValueError", "raise:KeyError", "raise:FloatingPointError",
          "raise:BareInjected", "raise:BareAssertion", "raise:StopIteration"]
VALS = ["val:nan", "val:inf", "val:-inf", "val:complex", "val:vector", "val:none", "val:list", "val:npnan",
        "val:arr_nan", "val:empty", "val:complex_tiny", "val:np_complex_tiny"]
FORMS = ["form:scalar", "form:triple", "form:listpair", "form:single"]
SDS = ["sd:zero", "sd:neg", "sd:nan", "sd:inf", "sd:-inf", "sd:complex", "sd:array", "sd:complex_tiny"]
SDS_WEAK = ["sd:none"]      # statement does not spell these out: any exception is accepted

EXC_NAME = {"Injected": "InjectedTargetError", "LinAlgError": "LinAlgError", "BareInjected": "InjectedTargetError",
            "BareAssertion": "AssertionError"}


def bases(seed, n):
    prof = dict(name="c10", budget_kinds=["small", "mid"], budget_min=25, budget_max=80, noise_w=[3, 2, 2, 3],
                fam_w=[6, 2, 1, 0, 1, 1, 1], cons_p=0.2, knobs=dict(noise_final_samples=0.7, max_iter=0.0))
    out = []
    i = 0
    while len(out) < n and i < 10 * n:
        scn = gen.make_scenario(seed, prof, i)
        i += 1
        if scn["options"].get("noise_final_samples") == 0:
            scn["options"]["noise_final_samples"] = 2
        out.append(scn)
    return out


def phase_labels(scn, rec):
    ph = list(rec["phases"])
    auto = scn["options"].get("uncertainty_handling") in (None, False) and not scn["options"].get("specify_target_noise")
    lab = []
    for i, p in enumerate(ph):
        if i == 0:
            lab.append("start")
        elif i == 1 and auto and p == "init":
            lab.append("noisetest")
        elif p == "init":
            lab.append("design")
        else:
            lab.append(p)
    return lab


def kinds_for(scn):
    if scn["options"].get("specify_target_noise"):
        return RAISES + VALS + FORMS + SDS + SDS_WEAK
    return RAISES + VALS


def expect(kind):
    if kind.startswith("raise:"):
        n = kind.split(":")[1]
        return ("type", EXC_NAME.get(n, n))
    if kind in SDS_WEAK:
        return ("any", None)
    return ("type", "ValueError")


def judge(case, rec):
    """Returns list of (cls, msg)."""
    f = case["faults"][0]
    k, kind = f["k"], f["kind"]
    out = []
    if rec["fault_fired"].get("target:" + kind, 0) != 1:
        return [("fault-not-fired", f"harness: fault at call {k} did not fire (run has {rec['n_calls']} calls)")]
    if rec["outcome"] != "exception":
        out.append(("failure-swallowed", f"{kind} at call {k} ({case['fault_phase']}): optimize() returned/ended with outcome {rec['outcome']} instead of raising"))
        if rec["n_calls"] != k:
            out.append(("called-again", f"{kind} at call {k} ({case['fault_phase']}): target called {rec['n_calls'] - k} more times after the failure"))
        return out
    mode, want = expect(kind)
    got = rec["exc"]["type"]
    if mode == "type" and got != want:
        out.append(("wrong-exception", f"{kind} at call {k} ({case['fault_phase']}): {got} escaped, {want} expected"))
    if rec["n_calls"] != k:
        out.append(("called-again", f"{kind} at call {k} ({case['fault_phase']}): target called {rec['n_calls'] - k} more times after the failure"))
    post = rec.get("post") or {}
    if post.get("func_count") != k - 1:
        out.append(("func-count", f"{kind} at call {k} ({case['fault_phase']}): func_count is {post.get('func_count')} after {k - 1} valid calls"))
    if not post.get("log_finite", True) or not post.get("sd_ok", True):
        out.append(("invalid-logged", f"{kind} at call {k}: a non-finite value or invalid SD is in the log"))
    if post.get("n_evals_sum") is not None and post["n_evals_sum"] != k - 1:
        out.append(("log-count", f"{kind} at call {k} ({case['fault_phase']}): the log holds {post['n_evals_sum']} observations after {k - 1} valid calls"))
    if rec["phases"][: k - 1] != case["base_phases"][: k - 1]:
        out.append(("harness-prefix", "harness: the faulted run did not reproduce the fault-free prefix"))
    return out


def main(tier):
    seed = harness.default_seed(tier)
    rep = harness.Report("C10", tier, seed)
    nb = 12 if tier == "quick" else 40
    bs = bases(seed, nb)
    t0 = time.time()
    brecs = harness.run_batch(run.run_scenario, bs, timeout=300, report=rep)
    cases = []
    phase_cov = collections.Counter()
    kind_cov = collections.Counter()
    for bi, (scn, r) in enumerate(zip(bs, brecs)):
        if r is None or r["outcome"] != "completed":
            continue
        lab = phase_labels(scn, r)
        N = len(lab)
        kinds = kinds_for(scn)
        rng = stream(seed, f"c10/{bi}")
        if tier == "quick":
            # one (sometimes two) k per phase, kinds rotating
            ks = []
            byp = collections.defaultdict(list)
            for i, p in enumerate(lab):
                byp[p].append(i + 1)
            for p, lst in byp.items():
                ks.append(lst[rng.randrange(len(lst))])
                if len(lst) > 3:
                    ks.append(lst[rng.randrange(len(lst))])
            ks = sorted(set(ks))
            plan = [(k, kinds[(bi * 7 + j * 3 + rng.randrange(len(kinds))) % len(kinds)]) for j, k in enumerate(ks)]
        else:
            # every call index, kinds rotating so that every (phase, kind family) pair is hit
            full = bi < 6
            plan = []
            for k in range(1, N + 1):
                if full:
                    for kd in (kinds[(k + bi) % len(kinds)], kinds[(3 * k + bi + 1) % len(kinds)], RAISES[k % len(RAISES)]):
                        plan.append((k, kd))
                else:
                    plan.append((k, kinds[(k * 5 + bi) % len(kinds)]))
            plan = sorted(set(plan))
        for k, kd in plan:
            c = copy.deepcopy(scn)
            c["faults"] = [dict(seam="target", k=k, kind=kd)]
            c["fault_phase"] = lab[k - 1]
            c["base_phases"] = r["phases"]
            c["base_index"] = bi
            c["population"] = "faulted"
            cases.append(c)
    if tier == "quick":
        # systematic block: every (fault kind, phase) pair once, bases round-robin - a handler that
        # swallows one exception type in one phase only must not depend on the random rotation above
        labs = {bi: phase_labels(scn, r) for bi, (scn, r) in enumerate(zip(bs, brecs)) if r is not None and r["outcome"] == "completed"}
        have = {(c["base_index"], c["faults"][0]["k"], c["faults"][0]["kind"]) for c in cases}
        rng = stream(seed, "c10/cross")
        j = 0
        for ph in ("start", "noisetest", "design", "search", "poll", "final"):
            cand = [bi for bi, lab in labs.items() if ph in lab]
            if not cand:
                continue
            for kd in RAISES + VALS + FORMS + SDS:
                ok = [bi for bi in cand if kd in kinds_for(bs[bi])]
                if not ok:
                    continue
                bi = ok[j % len(ok)]
                j += 1
                pos = [i + 1 for i, p in enumerate(labs[bi]) if p == ph]
                k = pos[rng.randrange(len(pos))]
                if (bi, k, kd) in have:
                    continue
                have.add((bi, k, kd))
                c = copy.deepcopy(bs[bi])
                c["faults"] = [dict(seam="target", k=k, kind=kd)]
                c["fault_phase"] = ph
                c["base_phases"] = brecs[bi]["phases"]
                c["base_index"] = bi
                c["population"] = "faulted"
                cases.append(c)
    recs = harness.run_batch(run.run_scenario, cases, timeout=300, report=rep)
    fired = collections.Counter()
    nt = set()
    samples = []
    exc_seen = collections.Counter()
    for c, r in zip(cases, recs):
        if r is None:
            continue
        f = c["faults"][0]
        problems = judge(c, r)
        for cls, msg in problems:
            if cls.startswith("harness") or cls == "fault-not-fired":
                rep.harness_error(msg)
            else:
                rep.add_violation(cls, msg, c, "c10case")
        if r["fault_fired"]:
            fired[f["kind"]] += 1
            phase_cov[c["fault_phase"]] += 1
            kind_cov[f["kind"].split(":")[0]] += 1
            nt.add((c["base_index"], f["k"], f["kind"]))
            if r.get("exc"):
                exc_seen[f["kind"] + " -> " + r["exc"]["type"]] += 1
        if len(samples) < 4 and r["fault_fired"]:
            samples.append(dict(base=c["base_index"], noise=c["noise_kind"], fault=f, phase=c["fault_phase"],
                                outcome=r["outcome"], exc=(r.get("exc") or {}).get("type"), calls=r["n_calls"],
                                func_count=(r.get("post") or {}).get("func_count")))
    wall = time.time() - t0
    nbase_ok = sum(1 for r in brecs if r is not None and r["outcome"] == "completed")
    total_positions = sum(len(r["phases"]) for r in brecs if r is not None and r["outcome"] == "completed")
    cov = dict(
        evaluations=len([r for r in recs if r is not None]) + len(bs),
        distinct_nontrivial=len(nt),
        rule="(base run, call index k, fault kind) triples whose fault actually fired; bases in all noise modes; quick: >=1 k per phase plus every (fault kind, phase) pair once, thorough: every k of every base",
        populations=dict(clean=len(bs), faulted=len(cases)),
        bases=dict(n=len(bs), completed=nbase_ok, call_positions=total_positions,
                   positions_faulted=len({(c['base_index'], c['faults'][0]['k']) for c in cases})),
        exhaustive=False,
        fault_fired=dict(fired), faults_by_phase=dict(phase_cov), faults_by_family=dict(kind_cov),
        observed_exception_by_kind=dict(exc_seen),
        runs_per_hour=int((len(cases) + len(bs)) / max(wall, 1e-9) * 3600),
        components=dict(real=["pybads", "gpyreg", "scipy", "numpy"], stub=["target (fault-injecting)", "constraint function", "clock"], fault_shims=[]),
    )
    return rep.finish(cov, runlevel.COMMON_ASSUME + [
        "SD forms the statement does not spell out (None) only need to raise some exception at that call; the type is recorded as an observation"],
        shrink_fn=shrink_c10, samples=samples)


def run_case(case):
    rec = run.run_scenario(case)
    return rec


def shrink_c10(prop, cls, kind, case):
    if kind != "c10case":
        return case, {}
    # minimise the fault-free part only (options / coordinates), keeping the fault
    from . import shrink

    def j(rec):
        return any(c == cls for c, _ in judge(case_holder[0], rec))
    case_holder = [case]

    def runner(c):
        return run.run_scenario(c)
    # candidates keep 'faults'; the judge needs base_phases of the *candidate*: drop the prefix check by clearing it
    c0 = copy.deepcopy(case)
    c0["base_phases"] = []
    case_holder[0] = c0

    def cands_filter(c):
        return c
    small, info = shrink.shrink(c0, runner, lambda rec: any(cl == cls for cl, _ in judge_noprefix(c0, rec)),
                                max_runs=40, max_seconds=120)
    return small, info


def judge_noprefix(case, rec):
    c = dict(case)
    c["base_phases"] = rec["phases"]
    return judge(c, rec)


def replay(prop, cls, case):
    rec = run.run_scenario(case)
    probs = judge_noprefix(case, rec)
    return any(c == cls for c, _ in probs), dict(outcome=rec["outcome"], exc=(rec.get("exc") or {}).get("type"),
                                                 calls=rec["n_calls"], problems=probs)
