"""The simulated world: seams, event log, fault shims and online monitors.

One `World` per simulated run. Seams are installed once per process
(`install_seams`) as pass-through wrappers that dispatch to the *current* world
(`set_world`) when one is active; they never draw from any PRNG and never read
a clock, so observing a run cannot change it.
"""
import hashlib
import struct
import sys
import traceback

import numpy as np

from . import targets as T

_CUR = None          # current World (or None: wrappers are pass-through)
_INSTALLED = False
_ORIG = {}


def set_world(w):
    global _CUR
    _CUR = w


def cur():
    return _CUR


class SimLimit(Exception):
    """Raised by the simulator to cut a run that exceeded a deterministic cap."""


class InjectedTargetError(Exception):
    """Custom exception type used for injected target failures."""


class HarnessError(Exception):
    pass


# ---------------------------------------------------------------------------
# clock
# ---------------------------------------------------------------------------

class SimClock:
    """Replaces the `time` module inside pybads.utils.timer.timer."""

    def __init__(self, spec=None):
        spec = spec or {}
        self.now = float(spec.get("t0", 1.0e9))
        self.reads = 0
        self.tick = float(spec.get("tick", 0.0))
        self.mode = spec.get("mode", "const")
        self.dur = float(spec.get("dur", 1.0))
        self.lo = float(spec.get("lo", 0.0))
        self.hi = float(spec.get("hi", 2.0))
        self._rs = np.random.RandomState(int(spec.get("seed", 0)) % (2**31))
        # jumps: {call index (1-based): [kind, delta]}; kind "in" (inside the
        # evaluation) or "post" (right after the evaluation was timed)
        self.jumps = {int(j["at_call"]): (j.get("kind", "in"), float(j["delta"]))
                      for j in spec.get("jumps", [])}
        self._pending_post = 0.0
        self._post_armed = False
        self.total_sim = 0.0
        self.n_jumps_fired = 0

    def time(self):
        self.reads += 1
        t = self.now
        if self._post_armed:
            # this read is the stop_timer read that follows the evaluation
            self.now += self._pending_post
            self._pending_post = 0.0
            self._post_armed = False
        self.now += self.tick
        return t

    def duration_for_call(self, k):
        if self.mode == "const":
            d = self.dur
        elif self.mode == "zero":
            d = 0.0
        elif self.mode == "rand":
            d = float(self.lo + (self.hi - self.lo) * self._rs.random_sample())
        elif self.mode == "long":
            d = 3600.0 * (1 + (k % 5))
        else:
            d = self.dur
        return d

    def evaluate(self, k):
        """Advance simulated time for target call k; returns measured delta."""
        d = self.duration_for_call(k)
        measured = d
        self.now += d
        self.total_sim += d
        j = self.jumps.get(k)
        if j is not None:
            self.n_jumps_fired += 1
            if j[0] == "in":
                self.now += j[1]
                measured += j[1]
            else:
                self._pending_post += j[1]
                self._post_armed = True
        return measured


class _TimeShim:
    """Stands in for the `time` module in pybads.utils.timer.timer."""

    def __init__(self, real):
        self._real = real

    def time(self):
        w = _CUR
        if w is not None and w.clock is not None:
            return w.clock.time()
        return self._real.time()

    def __getattr__(self, name):
        return getattr(self._real, name)


# ---------------------------------------------------------------------------
# canonical encoding for the event digest
# ---------------------------------------------------------------------------

def _enc(v, out):
    if v is None:
        out.append(b"N")
    elif isinstance(v, (bool, np.bool_)):
        out.append(b"T" if v else b"F")
    elif isinstance(v, (int, np.integer)):
        out.append(b"i" + str(int(v)).encode())
    elif isinstance(v, (float, np.floating)):
        out.append(b"f" + struct.pack("<d", float(v)))
    elif isinstance(v, complex):
        out.append(b"c" + struct.pack("<dd", v.real, v.imag))
    elif isinstance(v, str):
        out.append(b"s" + v.encode())
    elif isinstance(v, bytes):
        out.append(b"b" + v)
    elif isinstance(v, np.ndarray):
        a = np.ascontiguousarray(v)
        if a.dtype == object:
            out.append(b"o" + repr(a.tolist()).encode())
        else:
            out.append(b"a" + str(a.shape).encode() + a.dtype.str.encode() + a.tobytes())
    elif isinstance(v, (list, tuple)):
        out.append(b"[")
        for e in v:
            _enc(e, out)
        out.append(b"]")
    elif isinstance(v, dict):
        out.append(b"{")
        for k in sorted(v):
            _enc(str(k), out)
            _enc(v[k], out)
        out.append(b"}")
    else:
        out.append(b"r" + type(v).__name__.encode())


def _short(v):
    if isinstance(v, np.ndarray):
        return [float(x) if np.isreal(x) else str(x) for x in np.asarray(v).ravel()[:6].tolist()]
    if isinstance(v, (np.floating, float)):
        return float(v)
    if isinstance(v, (np.integer,)):
        return int(v)
    if isinstance(v, (list, tuple)):
        return [_short(e) for e in v[:6]]
    if isinstance(v, bytes):
        return "<%d bytes>" % len(v)
    if isinstance(v, (str, int, bool)) or v is None:
        return v
    return repr(v)[:60]


# ---------------------------------------------------------------------------
# World
# ---------------------------------------------------------------------------

class World:
    def __init__(self, scn):
        self.scn = scn
        self.D = int(scn["D"])
        D = self.D
        self.seq = 0
        self._h = hashlib.sha256()
        self._sem = hashlib.sha256()   # clock-independent digest: calls (x, y, sd) and result
        self.tail = []            # last events, human readable
        self.n_events = 0
        self.violations = []      # dicts
        self._viol_keys = {}
        self.probes = {}
        self.fault_fired = {}
        self.clock = SimClock(scn.get("clock"))
        self.monitors = set(scn.get("monitors", []))
        self.record_events = bool(scn.get("record_events", False))
        self.events = []

        def vec(name, default):
            v = scn.get(name)
            if v is None:
                return np.full(D, default, dtype=float)
            return np.asarray(v, dtype=float).reshape(D)
        self.lb = vec("lb", -np.inf)
        self.ub = vec("ub", np.inf)

        # parties
        self.landscape = T.make_landscape(scn["target"], D)
        self.noise = T.make_noise(scn.get("noise"), D)
        self.noise_mode = (scn.get("noise") or {}).get("mode", "none")
        self.specified = bool(scn.get("options", {}).get("specify_target_noise", False))
        cs = scn.get("cons")
        self.violation_fn = T.make_violation(cs, D) if cs else None

        # fault plans
        self.target_faults = {}
        self.fit_faults = {}
        self.update_faults = {}
        self.update_burst = 0
        self.predict_faults = {}
        self.acq_faults = {}
        self.passive = False
        self.passive_calls = 0
        self.es_predict_calls = 0
        self.acq_fault_now = False
        for f in scn.get("faults", []):
            seam = f["seam"]
            if seam == "target":
                self.target_faults[int(f["k"])] = f["kind"]
            elif seam == "fit":
                for j in range(int(f.get("len", 1))):
                    self.fit_faults[int(f["k"]) + j] = f.get("kind", "entry")
            elif seam == "update":
                # len > 1: the fallback's own posterior computations (previous hyperparameters on the new
                # training set) fail as well, len-1 times in a row
                self.update_faults[int(f["k"])] = max(int(f.get("len", 1)), self.update_faults.get(int(f["k"]), 0))
            elif seam == "predict":
                self.predict_faults[int(f["k"])] = f.get("kind", "nan_mean")
            elif seam == "acq":
                # k-th surrogate prediction made for an evolution-strategy population: non-finite numbers
                # for every stride-th candidate (or all of them)
                self.acq_faults[int(f["k"])] = (f.get("kind", "nan_some"), max(1, int(f.get("stride", 3))), int(f.get("phase", 0)))
            else:
                raise HarnessError(f"unknown fault seam {seam}")

        # run state
        self.b = None
        self.calls = []           # dicts: seq,k,x,u,y,sd,dur,phase,ytrue,valid
        self.n_calls = 0          # target invocations (including faulted ones)
        self.n_valid = 0          # calls that returned a valid value
        self.call_cap = None
        self.cons_calls = 0
        self.cons_rows = 0
        self.phase = None         # 'ctor','init','search','poll', None -> 'final'/'other'
        self.phase_calls = 0
        self.n_init = None
        self.budget = None        # user's max_fun_evals as read after construction
        self.max_iter = None
        self.n_polls = 0
        self.n_searches = 0
        self.loop_iters = 0
        self.nonprog = 0
        self.max_nonprog = 0
        self.calls_at_last_loop = 0
        self.calls_at_loop_end = None
        self.main_loop_done = False
        self.last_u = None
        self.last_logger_ret = None
        self.fit_calls = 0
        self.update_calls = 0
        self.lgf_update_calls = 0
        self.predict_inc_calls = 0
        self.in_fit = 0
        self.in_sethyp = 0
        self.in_lgf = 0
        self.in_tgt_from_gp = 0
        self.lgf_calls = 0
        self.add_gp_calls = 0
        self.acq_calls = 0
        self.es_calls = 0
        self.hedge_calls = 0
        self.filter_calls = 0
        self.es_ctx = None
        self.poll_ctx = None
        self.k_after_last_poll = None
        self.filter_passed_logged = set()   # bytes(u) of rows the filter let through although logged
        self.called_u = {}                  # bytes(u) -> count (valid calls)
        self.ctrl_states = set()
        self.outcomes = []                  # outcome symbols for trajectory hash
        self.mesh_trace = []
        self.phase_of_call = []
        self.hedge_min_prob = 1.0
        self.x0_repeat_used = False
        self.lim_reason = None
        self.last_filter_rows = None
        self.last_filter_phase = None
        self.nonprog_bound = None
        self.loop_cap = None
        self.finish_info = None
        self.last_record_flag = True
        self.opts0 = {}

    # -- bookkeeping ---------------------------------------------------
    def ev(self, kind, *fields):
        self.seq += 1
        out = [kind.encode()]
        for f in fields:
            _enc(f, out)
        self._h.update(b"|".join(out))
        self._h.update(b"\n")
        self.n_events += 1
        rec = (self.seq, kind) + tuple(_short(f) for f in fields)
        self.tail.append(rec)
        if len(self.tail) > 40:
            del self.tail[0]
        if self.record_events:
            self.events.append(rec)
        return self.seq

    def digest(self):
        return self._h.hexdigest()

    def sem(self, *fields):
        out = []
        for f in fields:
            _enc(f, out)
        self._sem.update(b"|".join(out) + b"\n")

    def sem_digest(self):
        return self._sem.hexdigest()

    def probe(self, name, n=1):
        self.probes[name] = self.probes.get(name, 0) + n

    def violate(self, prop, cls, msg, **detail):
        key = (prop, cls)
        if key in self._viol_keys:
            self._viol_keys[key]["count"] += 1
            return
        v = {"prop": prop, "cls": cls, "msg": msg, "count": 1, "seq": self.seq,
             "detail": {k: _short(val) for k, val in detail.items()}}
        self._viol_keys[key] = v
        self.violations.append(v)

    def fired(self, kind):
        self.fault_fired[kind] = self.fault_fired.get(kind, 0) + 1

    # -- target ----------------------------------------------------------
    def make_target(self):
        w = self

        def target(x):
            return w._target_call(x)
        return target

    def cur_phase(self):
        if self.phase is not None:
            return self.phase
        if self.main_loop_done:
            return "final"
        return "other"

    def _target_call(self, x):
        if self.passive:
            # unmonitored continuation (second optimize() on the same object): plain target, bounded number of calls
            self.passive_calls += 1
            if self.passive_calls > 400:
                raise SimLimit("passive call cap")
            x = np.array(x, dtype=float, copy=True).reshape(-1)
            yobs, sd = self.noise(x, self.landscape(x))
            if self.specified:
                return (float(yobs), float(sd if sd is not None else 1.0))
            return float(yobs)
        self.n_calls += 1
        k = self.n_calls
        x = np.array(x, dtype=float, copy=True).reshape(-1)
        phase = self.cur_phase()
        u = None if self.last_u is None else self.last_u.copy()
        self.phase_calls += 1
        if self.call_cap is not None and k > self.call_cap:
            self.lim_reason = "call cap"
            raise SimLimit(f"target call cap {self.call_cap} exceeded")

        # ---- C01: hard box, exactly
        if not (np.all(x >= self.lb) and np.all(x <= self.ub)):
            self.violate("C01", "target-outside-box",
                         f"target called outside hard bounds at call {k} ({phase})",
                         x=x, lb=self.lb, ub=self.ub, phase=phase)
        # ---- C02: feasibility by the region spec
        if self.violation_fn is not None:
            if self.violation_fn(x) > 0:
                self.violate("C02", "target-infeasible",
                             f"target called at infeasible point at call {k} ({phase})",
                             x=x, phase=phase, viol=self.violation_fn(x))
        # ---- C03(b): budget
        if self.budget is not None and self.n_init is not None \
                and self.budget >= self.n_init and k > self.budget:
            self.violate("C03", "budget-exceeded",
                         f"target call {k} exceeds max_fun_evals={self.budget} (initial design {self.n_init})",
                         phase=phase)
        # ---- C18: at most one evaluation per search step
        if phase == "search" and self.phase_calls > 1:
            self.violate("C18", "search-multi-eval",
                         f"search step made {self.phase_calls} target calls", k=k)
        # ---- C14 (runs): poll geometry
        if phase == "poll" and self.poll_ctx is not None and u is not None:
            self._check_poll_point(u, k)
        # ---- C17 (runs): what is evaluated in a design/search/poll step is a row of the candidate
        # set the filter handed on for that step (nothing modifies candidates after filtering)
        if u is not None and phase in ("init", "search", "poll") and self.last_filter_phase == phase \
                and self.last_filter_rows is not None and not (phase == "init" and k <= 2):
            if (u + 0.0).tobytes() not in self.last_filter_rows:
                self.violate("C17", "evaluated-point-not-from-filter",
                             f"{phase} step evaluated a point that is not in the candidate set its filter handed on",
                             k=k, u=u, phase=phase)
        # ---- C17 (runs): repeated evaluation bookkeeping
        det_mode = (self.noise_mode == "none")
        if u is not None:
            key = (u + 0.0).tobytes()
            n_before = self.called_u.get(key, 0)
            if n_before > 0 and det_mode and self.b is not None and \
                    self.b.optim_state.get("uncertainty_handling_level", 0) == 0:
                if phase == "init" and k == 2 and not self.x0_repeat_used:
                    self.x0_repeat_used = True   # the noise test
                elif key in self.filter_passed_logged:
                    self.violate("C17", "repeat-eval-passed-by-filter",
                                 "deterministic target evaluated again at a point the candidate filter let through although it was logged",
                                 k=k, phase=phase, u=u)
                else:
                    self.violate("C17", "repeat-eval-not-from-filter",
                                 "deterministic target evaluated twice at the same point (not via the candidate filter)",
                                 k=k, phase=phase, u=u)

        # ---- faults
        fk = self.target_faults.get(k)
        dur = self.clock.evaluate(k)
        if fk is not None:
            self.fired("target:" + fk)
            self.ev("target_fault", k, x, fk, phase)
            self.sem("fault", k, x, fk)
            self.calls.append(dict(k=k, x=x, u=u, y=None, sd=None, dur=dur, phase=phase,
                                   valid=False, fault=fk))
            return self._do_target_fault(fk, x)

        ytrue = self.landscape(x)
        yobs, sd = self.noise(x, ytrue)
        self.n_valid += 1
        if u is not None:
            self.called_u[(u + 0.0).tobytes()] = self.called_u.get((u + 0.0).tobytes(), 0) + 1
        self.calls.append(dict(k=k, x=x, u=u, y=yobs, sd=sd, dur=dur, phase=phase,
                               valid=True, ytrue=ytrue))
        self.ev("target_call", k, x, yobs, sd, dur, phase)
        self.sem("call", k, x, yobs, sd)
        rt = self.scn.get("ret_type", "float")
        conv = {"float": float, "np64": np.float64, "arr1": lambda v: np.array([v], dtype=float),
                "arr0": lambda v: np.array(v, dtype=float), "f32exact": float}[rt]
        if self.specified:
            return (conv(yobs), conv(sd if sd is not None else 1.0))
        return conv(yobs)

    def _do_target_fault(self, fk, x):
        if fk == "raise:BareInjected":
            raise InjectedTargetError()          # no arguments at all
        if fk == "raise:BareAssertion":
            assert x is None                     # a bare assert: AssertionError with empty args
        if fk == "raise:StopIteration":
            raise StopIteration
        if fk.startswith("raise:"):
            name = fk.split(":", 1)[1]
            exc = {"Injected": InjectedTargetError, "RuntimeError": RuntimeError,
                   "LinAlgError": np.linalg.LinAlgError, "ZeroDivisionError": ZeroDivisionError,
                   "ValueError": ValueError, "KeyError": KeyError,
                   "FloatingPointError": FloatingPointError}[name]
            raise exc(f"injected target failure ({name})")
        ytrue = self.landscape(x)
        sd_ok = 0.5
        val = {"nan": np.nan, "inf": np.inf, "-inf": -np.inf, "complex": complex(1.0, 2.0),
               "vector": np.array([1.0, 2.0]), "none": None, "list": [1.0, 2.0],
               "str": "oops", "npnan": np.float64("nan"), "arr_nan": np.array([np.nan]),
               "empty": np.array([]), "complex_tiny": complex(ytrue, 1e-15),
               "np_complex_tiny": np.complex128(complex(ytrue, -3e-16))}
        if fk.startswith("val:"):
            v = val[fk.split(":", 1)[1]]
            if self.specified:
                return (v, sd_ok)
            return v
        if fk.startswith("sd:"):
            kind = fk.split(":", 1)[1]
            sdv = {"zero": 0.0, "neg": -1.0, "nan": np.nan, "inf": np.inf, "-inf": -np.inf,
                   "none": None, "complex": complex(0.5, 1.0), "array": np.array([0.1, 0.2]),
                   "complex_tiny": complex(0.5, 1e-15)}[kind]
            return (ytrue, sdv)
        if fk.startswith("form:"):
            kind = fk.split(":", 1)[1]
            if kind == "scalar":
                return ytrue
            if kind == "triple":
                return (ytrue, 0.5, 0.5)
            if kind == "listpair":
                return [ytrue, 0.5]
            if kind == "single":
                return (ytrue,)
        raise HarnessError(f"unknown target fault {fk}")

    # -- constraint --------------------------------------------------------
    def make_cons(self):
        if self.violation_fn is None:
            return None
        w = self

        def non_box_cons(X):
            return w._cons_call(X)
        return non_box_cons

    def _cons_call(self, X):
        X = np.atleast_2d(np.asarray(X, dtype=float))
        if self.passive:
            outp = np.array([self.violation_fn(X[i]) for i in range(X.shape[0])], dtype=float)
            return (outp > 0) if (self.scn.get("cons") or {}).get("ret", "float") == "bool" else outp
        self.cons_calls += 1
        self.cons_rows += X.shape[0]
        out = np.empty(X.shape[0])
        for i in range(X.shape[0]):
            row = X[i]
            if not (np.all(row >= self.lb) and np.all(row <= self.ub)):
                self.violate("C01", "cons-outside-box",
                             "constraint function called with a point outside the hard bounds",
                             x=row, phase=self.cur_phase())
            out[i] = self.violation_fn(row)
        gate = (self.scn.get("cons") or {}).get("gate")
        if gate and self.phase == "search":
            # scripted-outcome constraint (environment adversary, like the scripted target): in the search steps the
            # script marks with 'R' every candidate batch is reported infeasible, so the search step sees an empty
            # candidate set. It only ever *adds* rejections: the region oracle of C02 stays sound.
            sc = gate["script"]
            i = self.n_searches - 1
            sym = sc[i] if i < len(sc) else gate.get("tail", "R")
            if sym == "R":
                out = np.maximum(out, 1.0)
                self.probe("gate_rejected_batch")
        self.ev("cons_call", X.shape[0], X, out)
        mode = (self.scn.get("cons") or {}).get("ret", "float")
        if mode == "bool":
            return out > 0
        return out

    # -- C14 in runs ------------------------------------------------------
    def _check_poll_point(self, u, k):
        ctx = self.poll_ctx
        if ctx.get("B") is None:
            return
        ctx["n_polled"] += 1
        if ctx["n_polled"] > 2 * self.D:
            self.violate("C14", "poll-too-many", f"more than 2D={2*self.D} points polled in one poll step", k=k)
        d = u - ctx["u0"]
        vv = ctx["vv"]
        scale = max(1.0, float(np.max(np.abs(u))), float(np.max(np.abs(ctx["u0"]))))
        err = np.max(np.abs(vv - d[None, :]), axis=1)
        j = int(np.argmin(err))
        tol = 1e-9 * scale
        if self.b is not None and self.b.options["force_poll_mesh"]:
            # documented option: poll vectors are snapped onto the search mesh (at most half a cell)
            tol += 0.5 * float(self.b.optim_state["search_mesh_size"]) * (1 + 1e-9)
        if not err[j] <= tol:
            self.violate("C14", "poll-off-direction",
                         "polled point is not incumbent + mesh_size * direction",
                         u=u, u0=ctx["u0"], err=float(err[j]), mesh=ctx["mesh"])
            return
        if j in ctx["used"]:
            self.violate("C14", "poll-direction-reused", "a poll direction was tried twice in one poll step", j=j)
        ctx["used"].add(j)

    # ------------------------------------------------------------------
    def summary_tail(self):
        return [list(t) for t in self.tail]


# ---------------------------------------------------------------------------
# seam installation (once per process; pass-through when no world is current)
# ---------------------------------------------------------------------------

def install_seams():
    global _INSTALLED
    if _INSTALLED:
        return
    import time as _real_time
    import gpyreg
    import pybads.bads.bads as bb
    import pybads.search.es_search as es
    import pybads.search.search_hedge as hd
    import pybads.function_logger.function_logger as fl
    import pybads.bads.gaussian_process_train as gpt
    timer_mod = sys.modules["pybads.utils.timer.timer"]

    # clock
    _ORIG["time"] = timer_mod.time
    timer_mod.time = _TimeShim(_real_time)

    # loop hook
    bb._verif_probe = _loop_probe

    GP = gpyreg.GP
    _ORIG["GP.fit"] = GP.fit
    _ORIG["GP.update"] = GP.update
    _ORIG["GP.predict"] = GP.predict
    _ORIG["GP.set_hyperparameters"] = GP.set_hyperparameters

    def fit(self, *a, **kw):
        w = _CUR
        if w is None:
            return _ORIG["GP.fit"](self, *a, **kw)
        w.fit_calls += 1
        k = w.fit_calls
        fk = w.fit_faults.get(k)
        w.ev("fit", k, fk)
        if fk is not None:
            w.fired("fit:" + fk)
            if fk == "mid":
                # fail the way a Cholesky failure inside the optimisation does:
                # after the training data of this GP object were replaced
                X = a[0] if len(a) > 0 else kw.get("X")
                y = a[1] if len(a) > 1 else kw.get("y")
                s2 = a[2] if len(a) > 2 else kw.get("s2")
                X, y, s2 = self._convert_shapes(X, y, s2)
                if X is not None:
                    self.X = X
                if y is not None:
                    self.y = y
                if s2 is not None:
                    self.s2 = s2
            raise np.linalg.LinAlgError("injected: Cholesky failure in GP.fit")
        w.in_fit += 1
        try:
            return _ORIG["GP.fit"](self, *a, **kw)
        finally:
            w.in_fit -= 1

    def update(self, *a, **kw):
        w = _CUR
        if w is None:
            return _ORIG["GP.update"](self, *a, **kw)
        w.update_calls += 1
        if w.in_lgf and not w.in_fit and not w.in_sethyp and "hyp" in kw:
            w.lgf_update_calls += 1
            if w.lgf_update_calls in w.update_faults:
                w.fired("update")
                w.ev("update_fault", w.lgf_update_calls)
                w.update_burst = w.update_faults[w.lgf_update_calls] - 1
                raise np.linalg.LinAlgError("injected: Cholesky failure in GP.update")
        elif w.in_lgf and not w.in_fit and w.in_sethyp and w.update_burst > 0 and kw.get("compute_posterior", True):
            w.update_burst -= 1
            w.fired("update:fallback")
            w.ev("update_fault_fallback", w.lgf_update_calls)
            raise np.linalg.LinAlgError("injected: Cholesky failure in GP.update (fallback posterior)")
        return _ORIG["GP.update"](self, *a, **kw)

    def set_hyperparameters(self, *a, **kw):
        w = _CUR
        if w is None:
            return _ORIG["GP.set_hyperparameters"](self, *a, **kw)
        w.in_sethyp += 1
        try:
            return _ORIG["GP.set_hyperparameters"](self, *a, **kw)
        finally:
            w.in_sethyp -= 1

    def predict(self, *a, **kw):
        w = _CUR
        if w is None:
            return _ORIG["GP.predict"](self, *a, **kw)
        res = _ORIG["GP.predict"](self, *a, **kw)
        if w.in_tgt_from_gp:
            w.predict_inc_calls += 1
            fk = w.predict_faults.get(w.predict_inc_calls)
            if fk is not None:
                w.fired("predict:" + fk)
                w.ev("predict_fault", w.predict_inc_calls, fk)
                mu, s2 = res
                mu = np.array(mu, dtype=float, copy=True)
                s2 = np.array(s2, dtype=float, copy=True)
                if fk == "nan_mean":
                    mu[...] = np.nan
                elif fk == "inf_mean":
                    mu[...] = np.inf
                elif fk == "nan_var":
                    s2[...] = np.nan
                elif fk == "neg_var":
                    s2[...] = -1.0
                return mu, s2
        if w.es_ctx is not None and w.acq_faults:
            w.es_predict_calls += 1
            af = w.acq_faults.get(w.es_predict_calls)
            if af is not None:
                kind, stride, phase = af
                mu, s2 = res
                mu = np.array(mu, dtype=float, copy=True)
                s2 = np.array(s2, dtype=float, copy=True)
                n = mu.shape[0]
                rows = np.ones(n, dtype=bool) if kind.endswith("_all") else (np.arange(n) % stride == phase % stride)
                if np.any(rows):
                    w.fired("acq:" + kind)
                    w.ev("acq_fault", w.es_predict_calls, kind, int(rows.sum()), int(n))
                    w.acq_fault_now = True
                    if kind.startswith("nanvar"):
                        s2[rows] = np.nan
                    elif kind.startswith("negvar"):
                        s2[rows] = -1.0
                    else:
                        mu[rows] = np.nan
                    return mu, s2
        return res

    GP.fit = fit
    GP.update = update
    GP.predict = predict
    GP.set_hyperparameters = set_hyperparameters

    # _get_target_from_gp_ (class level: marks predictions at the incumbent)
    _ORIG["tgt_from_gp"] = bb.BADS._get_target_from_gp_

    def _get_target_from_gp_(self, *a, **kw):
        w = _CUR
        if w is None or w.b is not self:
            return _ORIG["tgt_from_gp"](self, *a, **kw)
        w.in_tgt_from_gp += 1
        try:
            return _ORIG["tgt_from_gp"](self, *a, **kw)
        finally:
            w.in_tgt_from_gp -= 1
    bb.BADS._get_target_from_gp_ = _get_target_from_gp_

    # FunctionLogger.__call__ (class level): internal coordinates of each call
    _ORIG["fl_call"] = fl.FunctionLogger.__call__

    def fl_call(self, x, record_duplicate_data=True):
        w = _CUR
        if w is None or w.b is None or self is not w.b.function_logger:
            return _ORIG["fl_call"](self, x, record_duplicate_data)
        w.last_u = np.array(x, dtype=float, copy=True).reshape(-1)
        w.last_record_flag = bool(record_duplicate_data)
        ret = _ORIG["fl_call"](self, x, record_duplicate_data)
        w.last_logger_ret = (w.last_u.copy(), ret[0], ret[1], ret[2])
        return ret
    fl.FunctionLogger.__call__ = fl_call

    # candidate filter (two names)
    _ORIG["filter"] = bb.contraints_check
    filt = _make_filter_wrapper(_ORIG["filter"])
    bb.contraints_check = filt
    es.contraints_check = filt

    # acquisition (two names)
    _ORIG["acq"] = bb.acq_fcn_lcb
    bb.acq_fcn_lcb = _make_acq_wrapper(_ORIG["acq"], "bads")
    es.acq_fcn_lcb = _make_acq_wrapper(_ORIG["acq"], "es")

    # GP glue
    _ORIG["lgf"] = bb.local_gp_fitting
    bb.local_gp_fitting = _make_lgf_wrapper(_ORIG["lgf"])
    _ORIG["addgp"] = bb.add_and_update_gp
    bb.add_and_update_gp = _make_addgp_wrapper(_ORIG["addgp"])

    # poll generator (name in bads module)
    _ORIG["poll_gen"] = bb.poll_mads_2n
    bb.poll_mads_2n = _make_pollgen_wrapper(_ORIG["poll_gen"])

    # ES search / hedge
    _ORIG["es_call"] = es.ESSearch.__call__
    es.ESSearch.__call__ = _make_es_wrapper(_ORIG["es_call"])
    _ORIG["es_mask"] = es.ESSearch._get_selection_idx_mask_
    es.ESSearch._get_selection_idx_mask_ = _make_mask_wrapper(_ORIG["es_mask"])
    _ORIG["hedge_call"] = hd.ESSearchHedge.__call__
    hd.ESSearchHedge.__call__ = _make_hedge_wrapper(_ORIG["hedge_call"])

    _INSTALLED = True


# -- loop probe -------------------------------------------------------------

def _loop_probe(b, info):
    w = _CUR
    if w is None or w.b is not b:
        return
    w.loop_iters += 1
    made = w.n_calls - w.calls_at_last_loop
    w.calls_at_last_loop = w.n_calls
    if made == 0:
        w.nonprog += 1
        w.max_nonprog = max(w.max_nonprog, w.nonprog)
    else:
        w.nonprog = 0
    k = b.mesh_size_integer
    st = (int(k), int(b.optim_state["search_count"]), bool(b.search_success > 0),
          info["did_search"], info["did_poll"], made > 0,
          int(b.optim_state["uncertainty_handling_level"]))
    w.ctrl_states.add(st)
    w.outcomes.append(("S" if info["did_search"] else "-") + ("P" if info["did_poll"] else "-")
                      + ("e" if made > 0 else "0"))
    if info["did_poll"] and b.optim_state["uncertainty_handling_level"] > 0:
        try:
            uh = b.iteration_history.get("u")
            if uh is not None and len(uh) > info["poll_iteration"] and uh[info["poll_iteration"]] is not None and \
                    not np.array_equal(np.asarray(uh[info["poll_iteration"]], float).reshape(-1), np.asarray(b.u, float).reshape(-1)):
                w.probe("swap_to_earlier_iterate")
        except Exception:
            pass
    w.ev("loop_end", info["loop_iter"], info["poll_iteration"], info["did_search"],
         info["did_poll"], info["is_finished"], int(k), made)
    # C13: mesh exponent integral and capped at all times
    cap = b.options["max_poll_grid_number"]
    if float(k) != float(int(k)):
        w.violate("C13", "mesh-exponent-not-integer", f"mesh exponent {k} is not an integer")
    if k > cap:
        w.violate("C13", "mesh-above-cap", f"mesh exponent {k} above cap {cap}")
    try:
        if float(b.optim_state["search_mesh_size"]) > float(b.optim_state["mesh_size"]):
            w.violate("C13", "search-mesh-above-poll-mesh", "search mesh exceeds the poll mesh at the end of a loop iteration",
                      search_mesh=float(b.optim_state["search_mesh_size"]), mesh=float(b.optim_state["mesh_size"]))
    except (KeyError, TypeError):
        pass
    # C03(d): bounded non-progress
    if w.nonprog_bound is not None and w.nonprog > w.nonprog_bound:
        w.violate("C03", "non-progress",
                  f"{w.nonprog} consecutive loop iterations without a target evaluation (bound {w.nonprog_bound})",
                  k=int(k), search_count=int(b.optim_state["search_count"]))
        w.lim_reason = "non-progress bound"
        raise SimLimit("non-progress bound exceeded")
    if w.loop_cap is not None and w.loop_iters > w.loop_cap:
        w.lim_reason = "loop cap"
        raise SimLimit("global loop cap exceeded")
    if info["is_finished"]:
        w.main_loop_done = True
        w.calls_at_loop_end = w.n_calls
        w.finish_info = dict(info)


# -- candidate filter (C17, also C01/C02 on what is handed on) ---------------

def _make_filter_wrapper(orig):
    def contraints_check(U, lb, ub, tol_mesh, function_logger, proj=True, non_box_cons=None):
        w = _CUR
        if w is None or w.b is None or function_logger is not w.b.function_logger:
            return orig(U, lb, ub, tol_mesh, function_logger, proj, non_box_cons)
        U_in = np.array(U, dtype=float, copy=True)
        lb_in = np.array(lb, dtype=float, copy=True)
        ub_in = np.array(ub, dtype=float, copy=True)
        n_logged = function_logger.Xn + 1   # the log = its records (independent of the cache bookkeeping index)
        X_logged = function_logger.X[:n_logged].copy()
        out = orig(U, lb, ub, tol_mesh, function_logger, proj, non_box_cons)
        w.filter_calls += 1
        try:
            _check_filter(w, U_in, lb_in, ub_in, float(tol_mesh), X_logged, proj, out)
        except Exception as e:      # monitor bug => harness error, never silent
            raise HarnessError("filter monitor failed: " + repr(e)) from e
        return out
    return contraints_check


def filter_problems(U, lb, ub, tol_mesh, X_logged, proj, out, feas_rows=None):
    """Pure oracle on one call of the candidate filter.

    Returns (problems, hits): problems = list of (cls, msg, detail); hits = output
    rows that coincide with a logged point after rounding to tol_mesh/2."""
    problems = []
    out = np.atleast_2d(np.asarray(out, dtype=float))
    hits = []
    if out.size == 0:
        return problems, hits
    U2 = np.atleast_2d(U)
    if not (np.all(out >= lb) and np.all(out <= ub)):
        problems.append(("filter-outside-box", "candidate filter returned a point outside the box it filtered against", {}))
    src = np.maximum(np.minimum(U2, ub), lb) if proj else U2
    src_set = {r.tobytes() for r in np.ascontiguousarray(src + 0.0)}
    rows = [r.tobytes() for r in np.ascontiguousarray(out + 0.0)]
    if any(r not in src_set for r in rows):
        problems.append(("filter-invented-row", "candidate filter returned a row that is not a (projected) input row", {}))
    if len(set(rows)) != len(rows):
        problems.append(("filter-duplicates", "candidate filter returned duplicate rows", {"n": len(rows)}))
    if feas_rows is not None:
        bad = feas_rows(out)
        if bad is not None:
            problems.append(("filter-infeasible", "candidate filter returned an infeasible point", {"x": bad}))
    if X_logged.shape[0] > 0:
        tol = tol_mesh / 2.0
        logged = {r.tobytes() for r in np.ascontiguousarray(np.round(X_logged / tol) + 0.0)}
        r1 = np.ascontiguousarray(np.round(out / tol) + 0.0)
        hits = [i for i in range(out.shape[0]) if r1[i].tobytes() in logged]
        if hits:
            problems.append(("filter-already-evaluated",
                             "candidate filter let through a point that coincides (within tol_mesh/2) with a logged point",
                             {"n_hit": len(hits), "n_out": out.shape[0], "u": out[hits[0]]}))
    return problems, hits


def _check_filter(w, U, lb, ub, tol_mesh, X_logged, proj, out):
    phase = w.cur_phase()
    out = np.atleast_2d(np.asarray(out, dtype=float))
    U2 = np.atleast_2d(U)
    if out.size == 0:
        w.probe("filter_empty_out")
        w.ev("filter", phase, U2.shape[0], 0)
        w.last_filter_rows = set()
        w.last_filter_phase = phase
        return
    feas = None
    if w.violation_fn is not None and w.b is not None:
        def feas(rows):
            X = w.b.var_transf.inverse_transf(rows)
            for i in range(X.shape[0]):
                if w.violation_fn(X[i]) > 0:
                    return X[i]
            return None
    problems, hits = filter_problems(U2, lb, ub, tol_mesh, X_logged, proj, out, feas)
    w.last_filter_rows = {r.tobytes() for r in np.ascontiguousarray(out + 0.0)}
    w.last_filter_phase = phase
    for i in hits:
        w.filter_passed_logged.add(np.ascontiguousarray(out[i] + 0.0).tobytes())
    for cls, msg, detail in problems:
        w.violate("C17", cls, msg, phase=phase, proj=proj, **detail)
    if U2.shape[0] > out.shape[0]:
        w.probe("filter_dropped_some")
    w.ev("filter", phase, U2.shape[0], out.shape[0], out)


# -- acquisition ------------------------------------------------------------

def _make_acq_wrapper(orig, site):
    def acq_fcn_lcb(xi, func_count, gp, sqrt_beta=None):
        w = _CUR
        if w is None:
            return orig(xi, func_count, gp, sqrt_beta)
        w.acq_fault_now = False
        res = orig(xi, func_count, gp, sqrt_beta)
        faulted_now, w.acq_fault_now = w.acq_fault_now, False
        w.acq_calls += 1
        z, f_mu, f_s = res
        if site == "es" and w.es_ctx is not None:
            w.es_ctx["z"].append(np.array(z, dtype=float).reshape(-1).copy())
            w.es_ctx["u"].append(np.array(xi, dtype=float, copy=True))
        if "acq" in w.monitors and sqrt_beta is None and np.size(z) > 0 and not faulted_now:
            try:
                mu, s2 = _ORIG["GP.predict"](gp, xi)
                D = xi.shape[1]
                t = func_count + 1
                sb = np.sqrt(0.4 * np.log(D * t ** 2 * np.pi ** 2 / 0.6))
                zref = mu - sb * np.sqrt(s2)
                ok = np.allclose(np.asarray(z, dtype=float), zref, rtol=1e-9, atol=1e-12, equal_nan=True)
            except Exception as e:
                raise HarnessError("acq monitor failed: " + repr(e)) from e
            w.probe("acq_checked")
            if not ok:
                w.violate("C15", "acq-not-lcb", "acquisition value differs from mean - sqrt(beta_t)*sd",
                          site=site, maxdiff=float(np.nanmax(np.abs(np.asarray(z, float) - zref))))
        return res
    return acq_fcn_lcb


# -- GP glue (C15) ------------------------------------------------------------

def _rows_set(A):
    return {r.tobytes() for r in np.ascontiguousarray(np.asarray(A, dtype=float) + 0.0)}


def _make_lgf_wrapper(orig):
    def local_gp_fitting(gp, current_point, function_logger, options, optim_state, iteration_history, refit_flag):
        w = _CUR
        if w is None or w.b is None or function_logger is not w.b.function_logger:
            return orig(gp, current_point, function_logger, options, optim_state, iteration_history, refit_flag)
        from pybads.search.grid_functions import udist
        w.lgf_calls += 1
        len_scale = gp.temporary_data["len_scale"]
        len_scale = len_scale if np.isscalar(len_scale) else np.array(len_scale, copy=True)
        eff_radius = gp.temporary_data.get("effective_radius")
        n_logged = function_logger.Xn + 1   # the log = its records (independent of the cache bookkeeping index)
        Xl = function_logger.X[:n_logged].copy()
        Yl = function_logger.Y[:n_logged].copy()
        Sl = function_logger.S[:n_logged].copy() if function_logger.noise_flag else None
        ref = np.array(current_point, dtype=float, copy=True).reshape(-1)
        n_min = max(options["n_train_min"], options["n_train_max"] - options["buffer_ntrain"])   # configured minimum
        n_max = options["n_train_max"]
        w.in_lgf += 1
        try:
            res = orig(gp, current_point, function_logger, options, optim_state, iteration_history, refit_flag)
        finally:
            w.in_lgf -= 1
            w.update_burst = 0
        g = res[0]
        w.ev("lgf", w.lgf_calls, bool(refit_flag), int(g.X.shape[0]), res[1])
        if refit_flag:
            w.probe("gp_refit")
        if res[1] == -2:
            w.probe("posterior_update_fallback")
        if optim_state.get("second_fit"):
            w.probe("second_fit")
        if "acq" in w.monitors:
            # the posterior actually in use must be the posterior of the training pairs the GP holds:
            # recompute it on a deep copy with the same hyperparameters and compare predictions
            try:
                import copy as _copy
                g2 = _copy.deepcopy(g)
                _ORIG["GP.update"](g2, hyp=g.get_hyperparameters(as_array=True))
                pts = np.atleast_2d(np.vstack([ref, np.asarray(g.X, float)[:3]]))
                m1, v1 = _ORIG["GP.predict"](g, pts)
                m2, v2 = _ORIG["GP.predict"](g2, pts)
                w.probe("posterior_checked")
                if not (np.allclose(m1, m2, rtol=1e-6, atol=1e-9, equal_nan=True) and np.allclose(v1, v2, rtol=1e-6, atol=1e-12, equal_nan=True)):
                    w.violate("C15", "posterior-stale", "GP predictions do not come from the posterior of its current training pairs",
                              dmean=float(np.nanmax(np.abs(m1 - m2))), dvar=float(np.nanmax(np.abs(v1 - v2))), refit=bool(refit_flag))
            except np.linalg.LinAlgError:
                w.probe("posterior_check_linalg")
            except HarnessError:
                raise
            except Exception as e:
                raise HarnessError("posterior monitor failed: " + repr(e)) from e
        try:
            _check_training_set(w, g, Xl, Yl, Sl, ref, len_scale, n_min, n_max, optim_state, udist, options)
        except HarnessError:
            raise
        except Exception as e:
            raise HarnessError("training-set monitor failed: " + repr(e) + traceback.format_exc()) from e
        return res
    return local_gp_fitting


def _check_training_set(w, g, Xl, Yl, Sl, ref, len_scale, n_min, n_max, optim_state, udist, options):
    gX = np.asarray(g.X, dtype=float)
    gy = np.asarray(g.y, dtype=float).reshape(-1)
    n = gX.shape[0]
    n_logged = Xl.shape[0]
    # every training pair is a logged pair
    pairs = {}
    for j in range(n_logged):
        pairs.setdefault((Xl[j] + 0.0).tobytes(), []).append(j)
    specified = Sl is not None and bool(options.get("specify_target_noise"))
    gs2 = None
    if specified and g.s2 is not None:
        gs2 = np.asarray(g.s2, dtype=float).reshape(-1)
    for i in range(n):
        js = pairs.get(np.ascontiguousarray(gX[i] + 0.0).tobytes())
        if not js:
            w.violate("C15", "train-input-not-logged", "GP training input is not a logged point", i=i, x=gX[i])
            break
        jm = [j for j in js if Yl[j, 0] == gy[i]]
        if not jm:
            w.violate("C15", "train-value-not-logged", "GP training value differs from the logged value at that point",
                      i=i, y=gy[i], logged=[float(Yl[j, 0]) for j in js])
            break
        if gs2 is not None and gs2.shape[0] == n:
            if not any(np.isclose(gs2[i], Sl[j, 0] ** 2, rtol=1e-12, atol=0) for j in jm):
                w.violate("C15", "train-noise-not-variance",
                          "GP noise entry is not the logged SD squared (specified noise)",
                          i=i, s2=gs2[i], sd_logged=float(Sl[jm[0], 0]))
                break
    if specified and g.s2 is not None and np.size(g.s2) != n:
        w.violate("C15", "train-noise-size", "GP noise vector size differs from training set size",
                  n=n, ns2=int(np.size(g.s2)))
    # nearest, ordered, sized
    # independent of pybads' own distance routine: squared length-scaled Euclidean distance, computed from differences
    ls = np.asarray(len_scale, dtype=float)

    def d2(A):
        return np.sum(((np.asarray(A, dtype=float) - ref[None, :]) / ls) ** 2, axis=1)
    dist = d2(Xl)
    dsel = d2(gX)
    # tolerance: 1e-9 relative, plus the rounding of the length-scaled coordinates themselves (a/l and b/l carry a
    # relative error of eps each, so a distance computed from them is only defined up to ~eps*|a/l|*d): matters when
    # the length scale has shrunk to ~1e-8 of the coordinates (deep convergence), is negligible otherwise
    dmax_ = float(np.max(dsel)) if n else 0.0
    mmax_ = float(max(np.max(np.abs(Xl / ls)) if n_logged else 0.0, np.max(np.abs(ref / ls))))
    slack = 1e-9 * max(dmax_, 1e-300) + 16 * np.finfo(float).eps * np.sqrt(max(dmax_, 0.0)) * mmax_ * np.sqrt(Xl.shape[1])
    if n > 1 and np.any(np.diff(dsel) < -slack):
        w.violate("C15", "train-not-ordered", "GP training set is not ordered by distance from the reference point",
                  worst=float(np.min(np.diff(dsel))), dmax=float(np.max(dsel)))
    ds = np.sort(dist)
    if n <= n_logged and n > 0:
        # the chosen multiset of distances must be the n smallest
        if not np.allclose(np.sort(dsel), ds[:n], rtol=1e-9, atol=slack):
            w.violate("C15", "train-not-nearest", "GP training set is not the set of nearest logged points",
                      n=n, worst_sel=float(np.max(dsel)), nth=float(ds[n - 1]))
    lo = min(n_logged, n_min)
    hi = max(n_max, n_min)
    if not (lo <= n <= hi) or n > n_logged:
        w.violate("C15", "train-size", f"GP training set size {n} outside [{lo},{hi}] (logged {n_logged})")
    # reference point must be incumbent / recorded iterate / last evaluated point
    b = w.b
    okref = False
    for cand in (getattr(b, "u", None), getattr(b, "u_best", None), w.last_u):
        if cand is not None and np.array_equal(np.asarray(cand, dtype=float).reshape(-1), ref):
            okref = True
    if not okref:
        uh = b.iteration_history.get("u")
        if uh is not None:
            for r in uh:
                if r is not None and np.array_equal(np.asarray(r, dtype=float).reshape(-1), ref):
                    okref = True
                    break
    if not okref:
        w.violate("C15", "train-ref-point", "GP fitted around a point that is neither incumbent, recorded iterate nor last evaluated point", ref=ref)


def _make_addgp_wrapper(orig):
    def add_and_update_gp(function_logger, gp, x_new, y_new, sd_new=None, options=None):
        w = _CUR
        if w is None or w.b is None or function_logger is not w.b.function_logger:
            return orig(function_logger, gp, x_new, y_new, sd_new, options)
        n0 = gp.X.shape[0]
        res = orig(function_logger, gp, x_new, y_new, sd_new, options)
        w.add_gp_calls += 1
        g = res
        w.ev("addgp", w.add_gp_calls, int(g.X.shape[0]))
        try:
            if g.X.shape[0] != n0 + 1:
                w.violate("C15", "add-size", "incremental GP update did not append exactly one point")
            elif w.last_logger_ret is not None:
                lu, ly, lsd, lidx = w.last_logger_ret
                if not np.array_equal(np.asarray(g.X[-1], float).reshape(-1), lu):
                    w.violate("C15", "add-input", "point appended to the GP is not the last evaluated point")
                elif float(np.asarray(g.y[-1]).reshape(-1)[0]) != float(np.asarray(ly).reshape(-1)[0]):
                    w.violate("C15", "add-value", "value appended to the GP is not the value the log returned",
                              gy=float(np.asarray(g.y[-1]).reshape(-1)[0]), ly=float(np.asarray(ly).reshape(-1)[0]))
                if options is not None and options.get("specify_target_noise") and lsd is not None and g.s2 is not None:
                    s2_last = float(np.asarray(g.s2).reshape(-1)[-1])
                    # the variance of the logged record (merged if a repeat) or of this observation
                    cands = [float(lsd) ** 2]
                    if lidx is not None:
                        cands.append(float(function_logger.S[lidx, 0]) ** 2)
                    if not any(np.isclose(s2_last, c, rtol=1e-12, atol=0) for c in cands):
                        w.violate("C15", "add-noise-not-variance",
                                  "noise appended to the GP is not the SD squared (specified noise)",
                                  s2=s2_last, sd=float(lsd))
        except HarnessError:
            raise
        except Exception as e:
            raise HarnessError("add-gp monitor failed: " + repr(e)) from e
        return res
    return add_and_update_gp


# -- poll generator ------------------------------------------------------------

def _make_pollgen_wrapper(orig):
    def poll_mads_2n(dim_x, poll_scale, search_mesh_size, mesh_size):
        w = _CUR
        if w is None:
            return orig(dim_x, poll_scale, search_mesh_size, mesh_size)
        B = orig(dim_x, poll_scale, search_mesh_size, mesh_size)
        if w.poll_ctx is not None:
            ctx = w.poll_ctx
            ps = np.array(poll_scale, dtype=float, copy=True)
            ctx["B"] = np.array(B, dtype=float, copy=True)
            ctx["mesh"] = float(mesh_size)
            ctx["vv"] = (ctx["B"] * float(mesh_size)) * ps
            ctx["u0"] = np.array(w.b.u, dtype=float, copy=True).reshape(-1)
            check_poll_basis(w, ctx["B"], ps, dim_x, float(search_mesh_size), float(mesh_size))
        w.ev("poll_basis", B)
        return B
    return poll_mads_2n


def check_poll_basis(w, B, poll_scale, D, search_mesh_size, mesh_size, prop="C14"):
    """Oracle on one generated basis. Returns list of problems (also files violations if w)."""
    problems = []
    B = np.asarray(B, dtype=float)
    if B.shape != (2 * D, D):
        problems.append(("basis-shape", f"basis shape {B.shape} is not (2D, D)"))
    else:
        M = B[:D] * poll_scale
        if not np.array_equal(B[D:], -B[:D]):
            problems.append(("basis-not-symmetric", "second half of the basis is not the negated first half"))
        Mi = np.round(M)
        if np.max(np.abs(M - Mi)) > 1e-9:
            problems.append(("basis-not-integer", "direction entries are not integers"))
        n_max = max(1.0, np.round(search_mesh_size / mesh_size))
        if np.max(np.abs(Mi)) > n_max + 1e-9:
            problems.append(("basis-entry-bound", f"direction entry exceeds the mesh ratio {n_max}"))
        det = np.linalg.det(Mi)
        if not abs(det) >= 1 - 1e-6:
            problems.append(("basis-singular", f"direction matrix is singular (det={det})"))
        if n_max == 1:
            A = np.abs(Mi)
            if not (np.all(A.sum(0) == 1) and np.all(A.sum(1) == 1) and np.all((A == 0) | (A == 1))):
                problems.append(("basis-not-signed-permutation",
                                 "with unit mesh ratio the directions are not the signed coordinate directions"))
    if w is not None:
        for cls, msg in problems:
            w.violate(prop, cls, msg, B=B)
    return problems


# -- ES search / hedge (C18) ----------------------------------------------------

def _make_es_wrapper(orig):
    def __call__(self, u, lb, ub, func_logger, gp, optim_state, sum_rule=True, non_box_cons=None):
        w = _CUR
        if w is None or w.b is None or func_logger is not w.b.function_logger:
            return orig(self, u, lb, ub, func_logger, gp, optim_state, sum_rule, non_box_cons)
        w.es_calls += 1
        w.es_ctx = {"z": [], "u": [], "lamb": self.lamb, "mu": self.mu}
        lbs = np.array(optim_state["lb_search"], dtype=float, copy=True)
        ubs = np.array(optim_state["ub_search"], dtype=float, copy=True)
        try:
            us, z = orig(self, u, lb, ub, func_logger, gp, optim_state, sum_rule, non_box_cons)
        finally:
            ctx = w.es_ctx
            w.es_ctx = None
        try:
            zs = np.concatenate(ctx["z"]) if ctx["z"] else np.array([])
            Us = np.concatenate(ctx["u"], axis=0) if ctx["u"] else np.zeros((0, w.D))
            w.ev("es", w.es_calls, type(self).__name__, int(zs.size), us, z)
            w.probe("es_pop_le8" if zs.size <= 8 else "es_pop_gt8")
            if zs.size == 0:
                w.probe("es_no_survivor")
                if np.size(us) > 0:
                    w.violate("C18", "es-proposal-without-candidates",
                              "ES proposed a point although none of its candidates survived the feasibility filter", us=np.asarray(us, float))
            if zs.size > 0:
                if not (np.all(Us >= lbs) and np.all(Us <= ubs)):
                    w.violate("C18", "es-candidate-outside-box", "ES evaluated the acquisition outside the mesh-rounded box")
                else:
                    # the same clause against a box recomputed here (hard internal bounds rounded inward to the search
                    # mesh), not read back from the optimiser
                    sms = float(optim_state["search_mesh_size"])
                    hlb = np.asarray(optim_state["lb"], dtype=float).reshape(-1)
                    hub = np.asarray(optim_state["ub"], dtype=float).reshape(-1)
                    with np.errstate(invalid="ignore"):
                        rlb = np.where(np.isfinite(hlb), np.ceil(hlb / sms - 1e-9) * sms, -np.inf)
                        rub = np.where(np.isfinite(hub), np.floor(hub / sms + 1e-9) * sms, np.inf)
                    tolb = 1e-9 * sms
                    if not (np.all(Us >= rlb[None, :] - tolb) and np.all(Us <= rub[None, :] + tolb)):
                        w.violate("C18", "es-candidate-outside-box", "ES evaluated the acquisition outside the hard box rounded inward to the search mesh (recomputed)")
                if w.violation_fn is not None:
                    Xs = w.b.var_transf.inverse_transf(Us)
                    nbad = sum(1 for i in range(Xs.shape[0]) if w.violation_fn(Xs[i]) > 0)
                    if nbad:
                        w.violate("C18", "es-candidate-infeasible", "ES ranked candidates that did not survive feasibility filtering",
                                  n_infeasible=nbad, n=int(Xs.shape[0]))
                zmin = np.nanmin(zs) if np.any(np.isfinite(zs)) else np.nan
                zz = float(np.asarray(z).reshape(-1)[0])
                if np.isfinite(zmin) and not zz == zmin:
                    w.violate("C18", "es-not-min", "ES returned a candidate whose acquisition value is not the minimum over its population",
                              z=zz, zmin=float(zmin), n=int(zs.size))
                else:
                    idx = np.where(zs == zz)[0]
                    if idx.size and not any(np.array_equal(Us[i], np.asarray(us, float).reshape(-1)) for i in idx):
                        w.violate("C18", "es-point-mismatch", "ES returned a point that is not the candidate attaining the returned value")
        except HarnessError:
            raise
        except Exception as e:
            raise HarnessError("ES monitor failed: " + repr(e)) from e
        return us, z
    return __call__


def _make_mask_wrapper(orig):
    def _get_selection_idx_mask_(self, mu, lamb):
        w = _CUR
        m = orig(self, mu, lamb)
        if w is not None:
            check_selection_mask(w, m, mu, lamb)
        return m
    return _get_selection_idx_mask_


def check_selection_mask(w, m, mu, lamb):
    problems = []
    m = np.asarray(m)
    ll = int(min(lamb, mu))
    if m.ndim != 1 or m.size < ll:
        problems.append(("mask-too-short", f"selection mask has {m.size} entries, {ll} needed (mu={mu}, lambda={lamb})"))
    else:
        head = m[:ll]
        if head.size and (head.min() < 0 or head.max() >= mu):
            problems.append(("mask-out-of-range", f"selection index outside the surviving population (mu={mu}, lambda={lamb})"))
        if head.size > 1 and np.any(np.diff(head) < 0):
            problems.append(("mask-not-monotone", "selection mask does not favour better ranks monotonically"))
    if w is not None:
        for cls, msg in problems:
            w.violate("C18", cls, msg, mu=int(mu), lamb=int(lamb))
    return problems


def _make_hedge_wrapper(orig):
    def __call__(self, u, lb, ub, func_logger, gp, optim_state):
        w = _CUR
        if w is None or w.b is None or func_logger is not w.b.function_logger:
            return orig(self, u, lb, ub, func_logger, gp, optim_state)
        w.hedge_calls += 1
        try:
            return orig(self, u, lb, ub, func_logger, gp, optim_state)
        finally:
            p = getattr(self, "prob", None)
            if p is not None:
                p = np.asarray(p, dtype=float)
                w.ev("hedge", w.hedge_calls, p, getattr(self, "chosen_hedge", None))
                check_hedge_probs(w, p, self.gamma)
    return __call__


def check_hedge_probs(w, p, gamma):
    problems = []
    if not np.all(np.isfinite(p)):
        problems.append(("hedge-prob-nonfinite", "hedge probabilities are not finite"))
    else:
        if abs(float(np.sum(p)) - 1.0) > 1e-12:
            problems.append(("hedge-prob-sum", f"hedge probabilities sum to {float(np.sum(p))!r}"))
        if np.any(p < gamma - 1e-15):
            problems.append(("hedge-prob-floor", f"hedge probability below the exploration floor {gamma}"))
    if w is not None:
        w.hedge_min_prob = min(w.hedge_min_prob, float(np.min(p))) if np.all(np.isfinite(p)) else w.hedge_min_prob
        for cls, msg in problems:
            w.violate("C18", cls, msg, p=p)
    return problems
