"""C07: a fixed random_seed makes a run reproducible whatever ran earlier in the
process. Each case = scenario S + process history H; S must produce the same
call sequence and result (a) in a pristine child, (b) after H (including ops
between constructing and running S), (c) under another clock schedule and
(d) in a fresh interpreter with another PYTHONHASHSEED."""
import collections
import copy
import json
import os
import subprocess
import sys
import tempfile
import time

from . import env, gen, harness, historyops, pool, run, runlevel
from .prng import stream, subseed


def sibling(rng, S):
    """A closely related optimisation: same dimension, box, seed and options as S, but another
    target / constraint / noise - what leaks keyed on D, on the bounds or on point bytes need."""
    o = copy.deepcopy({k: v for k, v in S.items() if k not in ("pre", "between")})
    t = rng.random()
    if t < 0.4:
        o["target"] = {"family": "const", "value": 1.5}
    elif t < 0.7 and isinstance(o["target"].get("c"), list):
        o["target"] = dict(o["target"], c=[v * 0.5 for v in o["target"]["c"]])
    if o.get("cons") is not None and rng.random() < 0.6:
        o["cons"] = None
        if o.get("x0_class") in ("infeasible", "near_cons"):
            o["x0_class"] = "on_bound"
    if rng.random() < 0.3:
        o["noise"] = None
        for k in ("specify_target_noise", "uncertainty_handling", "noise_final_samples", "noise_size"):
            o["options"].pop(k, None)
    if rng.random() < 0.5 and o.get("x0") is not None and o.get("plb") is not None and o.get("lb") is not None:
        # start between the plausible box and the hard bounds (another Sobol seed for the same D)
        o["x0"] = [0.5 * (a + b) for a, b in zip(o["lb"], o["plb"])]
        o["x0_class"] = "on_bound"
    o["options"] = dict(o["options"])
    o["options"]["max_fun_evals"] = min(int(o["options"].get("max_fun_evals", 40)), 40)
    o["faults"] = []
    return o


def gen_ops(rng, seed, tag, n, S=None):
    ops = []
    for j in range(n):
        k = gen._choice(rng, ["draw", "reseed", "seterr", "loglevel", "opt", "opt", "construct"] + (["sibling", "sibling"] if S is not None else []))
        if k == "sibling":
            ops.append(dict(op="opt", scn=sibling(rng, S)))
            continue
        if k == "draw":
            ops.append(dict(op="draw", n=rng.randrange(1, 2000), normal=rng.randrange(0, 50)))
        elif k == "reseed":
            ops.append(dict(op="reseed", seed=rng.randrange(0, 2**31 - 1)))
        elif k == "seterr":
            ops.append(dict(op="seterr", what=gen._choice(rng, ["all", "divide", "invalid", "over"]), mode=gen._choice(rng, ["ignore", "warn"])))
        elif k == "loglevel":
            ops.append(dict(op="loglevel", level=gen._choice(rng, [10, 20, 30, 40])))
        elif k == "construct":
            o = {}
            if rng.random() < 0.5:
                o["random_seed"] = rng.randrange(0, 1000)
            if rng.random() < 0.5:
                o["tol_fun"] = gen._choice(rng, [1e-2, 1e-5])
            ops.append(dict(op="construct", D=rng.randrange(1, 7), options=o))
        else:
            prof = dict(name="c07other", budget_kinds=["tiny", "small"], budget_min=8, cons_p=0.2, noise_rng_global=0.5)
            other = gen.make_scenario(subseed(seed, f"{tag}/other/{j}"), prof, j)
            if rng.random() < 0.4:
                other["options"].pop("random_seed", None)
            ops.append(dict(op="opt", scn=other))
    return ops


def make_case(seed, i):
    rng = stream(seed, f"c07/{i}")
    prof = dict(name="c07", budget_kinds=["small", "small", "mid"], budget_min=14, budget_max=70, x0_w=[4, 1, 5, 0], noise_w=[4, 2, 3, 2],
                noise_rng_global=0.6, cons_p=0.2, fam_w=[6, 2, 1, 1, 1, 1, 1], knobs=dict(noise_final_samples=0.5))
    S = gen.make_scenario(seed, prof, i)
    if rng.random() < 0.15:
        S["options"]["random_seed"] = 0          # a valid and popular seed; falsy in Python
    fitfault = rng.random() < 0.3
    if fitfault:
        # the same GP-fit failures (fault kind F4) hit S in every variant: the recovery paths must not
        # read anything that earlier failures in this process left behind. Faults are spread over the
        # first fit and the local refits; small hyperparameter designs make the restart point matter.
        S["faults"] = [dict(seam="fit", k=rng.randrange(1, 13), len=rng.randrange(1, 4), kind="mid") for _ in range(rng.randrange(2, 6))]
        ni = gen._choice(rng, [2, 8, 32, 128])
        S["options"].update(gp_train_n_init=ni, gp_train_n_init_final=min(ni, gen._choice(rng, [1, 2, 8])))
        S["options"]["max_fun_evals"] = max(int(S["options"].get("max_fun_evals", 40)), 40)
    pre = gen_ops(rng, seed, f"pre{i}", rng.randrange(0, 5), S)
    if fitfault:
        for o in pre:
            if o["op"] == "opt":
                o["scn"]["faults"] = [dict(seam="fit", k=kk, len=rng.randrange(1, 4), kind="mid") for kk in (1, 2, 4, 6, 8)]
        if not any(o["op"] == "opt" for o in pre):
            sb = sibling(rng, S)
            sb["faults"] = [dict(seam="fit", k=kk, len=rng.randrange(1, 4), kind="mid") for kk in (1, 2, 4, 6, 8)]
            pre.append(dict(op="opt", scn=sb))
    between = gen_ops(rng, seed, f"btw{i}", rng.randrange(0, 3), S) if rng.random() < 0.5 else []
    if S["options"].get("random_seed") == 0 and not any(o["op"] in ("draw", "reseed", "opt", "construct") for o in between):
        between = between + [dict(op="draw", n=rng.randrange(1, 50), normal=rng.randrange(0, 5))]
    alt_clock = dict(mode=gen._choice(rng, ["zero", "long", "rand"]), seed=rng.randrange(1, 10**6), lo=0.0, hi=50.0,
                     jumps=[dict(at_call=rng.randrange(1, 40), kind=gen._choice(rng, ["in", "post"]), delta=gen._choice(rng, [-3600.0, 86400.0, -5.0]))])
    # the run under test is built from caller-owned arrays that an earlier instance was built (or built and run) from
    reuse = gen._choice(stream(seed, f"c07reuse/{i}"), [None, None, "construct", "run"])
    return dict(S=S, pre=pre, between=between, alt_clock=alt_clock, index=i, reuse=reuse)


def variant(arg):
    """Runs in a forked child: optional history, then S."""
    S = copy.deepcopy(arg["S"])
    if arg.get("pre"):
        historyops.execute(arg["pre"])
    if arg.get("between"):
        S["between"] = arg["between"]
    if arg.get("clock"):
        S["clock"] = arg["clock"]
    if arg.get("reuse"):
        S["reuse_arrays"] = arg["reuse"]
    r = run.run_scenario(S)
    return dict(sem=r["sem_digest"], outcome=r["outcome"], n_calls=r["n_calls"], result=r.get("result"), fired=r.get("fault_fired"),
                exc=(r.get("exc") or {}).get("type"), traj=r["traj"], n_polls=r["n_polls"])


def fresh_interpreter(arg, hashseed):
    """Variant (d): a new interpreter with another PYTHONHASHSEED."""
    with tempfile.NamedTemporaryFile("w", suffix=".json", delete=False) as f:
        json.dump(arg, f)
        path = f.name
    try:
        envv = dict(os.environ, PYTHONHASHSEED=str(hashseed))
        out = subprocess.run([sys.executable, "-m", "simbads.c07", "--variant", path], cwd=env.VERIF_ROOT, env=envv,
                             capture_output=True, text=True, timeout=900)
        for line in out.stdout.splitlines():
            if line.startswith("C07VARIANT "):
                return json.loads(line[len("C07VARIANT "):])
        return dict(error=out.stderr[-1500:])
    finally:
        os.unlink(path)


def fresh_task(arg):
    return fresh_interpreter(arg["arg"], arg["hashseed"])


def main(tier):
    seed = harness.default_seed(tier)
    rep = harness.Report("C07", tier, seed)
    n = 48 if tier == "quick" else 1500
    n_fresh = 6 if tier == "quick" else 120
    cases = [make_case(seed, i) for i in range(n)]
    tasks = []
    for c in cases:
        tasks.append(dict(S=c["S"]))                                              # (a) pristine
        tasks.append(dict(S=c["S"], pre=c["pre"], between=c["between"], reuse=c.get("reuse")))          # (b) after history
        tasks.append(dict(S=c["S"], clock=c["alt_clock"]))                        # (c) other clock
    t0 = time.time()
    outs = harness.run_batch(variant, tasks, timeout=900, report=rep)
    fresh_idx = list(range(0, n, max(1, n // n_fresh)))[:n_fresh]
    fouts = harness.run_batch(fresh_task, [dict(arg=dict(S=cases[i]["S"], pre=cases[i]["pre"], between=cases[i]["between"], reuse=cases[i].get("reuse")),
                                                hashseed=4242 + i) for i in fresh_idx], timeout=1200, report=rep, workers=8)
    fresh = dict(zip(fresh_idx, fouts))
    nt = set()
    shapes = collections.Counter()
    oc = collections.Counter()
    samples = []
    n_cmp = 0
    for i, c in enumerate(cases):
        a, b, cc = outs[3 * i], outs[3 * i + 1], outs[3 * i + 2]
        if a is None or b is None or cc is None:
            continue
        oc[a["outcome"]] += 1
        labels = [("history", b), ("clock", cc)]
        if i in fresh and fresh[i] is not None:
            if "error" in fresh[i]:
                rep.harness_error({"fresh_interpreter": fresh[i]["error"]})
            else:
                labels.append(("fresh-interpreter", fresh[i]))
        for lab, o in labels:
            n_cmp += 1
            if o["sem"] != a["sem"]:
                what = f"calls {a['n_calls']} vs {o['n_calls']}, outcome {a['outcome']} vs {o['outcome']}, result {json.dumps(a.get('result'))[:160]} vs {json.dumps(o.get('result'))[:160]}"
                rep.add_violation("differs-after-" + lab, f"same problem/options/random_seed gave a different run after {lab}: {what}",
                                  dict(S=c["S"], pre=c["pre"] if lab != "clock" else [], between=c["between"] if lab != "clock" else [], reuse=c.get("reuse") if lab != "clock" else None,
                                       alt_clock=c["alt_clock"] if lab == "clock" else None, variant=lab), "c07case")
        if a["outcome"] == "completed" and (c["pre"] or c["between"] or c.get("reuse")):
            nt.add(harness.scn_digest(c))
        shapes["pre:" + ",".join(o["op"] for o in c["pre"]) + "|btw:" + ",".join(o["op"] for o in c["between"])] += 1
        if len(samples) < 3:
            samples.append(dict(index=i, D=c["S"]["D"], x0=c["S"]["x0"], noise=c["S"].get("noise"), options=c["S"]["options"],
                                pre=[o["op"] for o in c["pre"]], between=[o["op"] for o in c["between"]], alt_clock=c["alt_clock"],
                                calls=a["n_calls"], sem=a["sem"][:16]))
    wall = time.time() - t0
    cov = dict(
        evaluations=len([o for o in outs if o is not None]) + len([o for o in fouts if o is not None]),
        distinct_nontrivial=len(nt),
        rule="cases (scenario with fixed random_seed, process history of 0-4 ops before + 0-2 ops between construction and run); non-trivial = the reference run completed and the history is non-empty; each case is run pristine, after the history, under another clock schedule (+ a sample in a fresh interpreter with another PYTHONHASHSEED) and the call/result digests compared",
        cases=len(cases), comparisons=n_cmp, fresh_interpreter_cases=len([o for o in fouts if o is not None]),
        outcomes=dict(oc), distinct_history_shapes=len(shapes), history_shapes_top=dict(shapes.most_common(8)),
        x0_omitted=sum(1 for c in cases if c["S"]["x0"] is None),
        reused_caller_arrays=sum(1 for c in cases if c.get("reuse")),
        noise_from_global_rng=sum(1 for c in cases if (c["S"].get("noise") or {}).get("rng") == "global"),
        fit_fault_cases=dict(generated=sum(1 for c in cases if c["S"].get("faults")),
                             fired_in_reference=sum(1 for i in range(len(cases)) if outs[3 * i] is not None and outs[3 * i].get("fired"))),
        fault_fired={"GP.fit LinAlgError in the run under test and in earlier runs (F4)": sum(sum((outs[3 * i].get("fired") or {}).values()) for i in range(len(cases)) if outs[3 * i] is not None),
                     "history op (F7)": sum(len(c["pre"]) + len(c["between"]) for c in cases), "clock schedule change (F6)": len(cases)},
        runs_per_hour=int(len(tasks) / max(wall, 1e-9) * 3600),
        components=dict(real=["pybads", "gpyreg", "scipy", "numpy"], stub=["target", "constraint function", "clock"], fault_shims=["GP.fit raises LinAlgError after replacing the training data (30% of cases, same plan in every variant; earlier runs in the history fail too)"]),
    )
    return rep.finish(cov, runlevel.COMMON_ASSUME + [
        "interleaving other consumers of NumPy's global generator *during* the run is outside the statement and not generated",
        "np.seterr history ops use 'ignore'/'warn' only (turning floating-point warnings into exceptions is not 'what ran earlier' in the statement's sense)"],
        shrink_fn=shrink_c07, samples=samples)


def _differs(case):
    a = dict(S=case["S"])
    if case.get("variant") == "clock":
        b = dict(S=case["S"], clock=case["alt_clock"])
    else:
        b = dict(S=case["S"], pre=case["pre"], between=case["between"], reuse=case.get("reuse"))
    res = pool.run_tasks(variant, [a, b], timeout=900)
    if res[0][0] != "ok" or res[1][0] != "ok":
        return False, None
    return res[0][1]["sem"] != res[1][1]["sem"], (res[0][1], res[1][1])


def shrink_c07(prop, cls, kind, case):
    if kind != "c07case" or case.get("variant") == "fresh-interpreter":
        return case, {}
    cur = copy.deepcopy(case)
    runs = 0
    steps = []
    changed = True
    while changed and runs < 24:
        changed = False
        for key in ("pre", "between"):
            for j in range(len(cur[key])):
                cand = copy.deepcopy(cur)
                del cand[key][j]
                runs += 1
                if _differs(cand)[0]:
                    cur = cand
                    steps.append(f"drop {key}[{j}]")
                    changed = True
                    break
            if changed:
                break
    return cur, dict(runs=runs * 2, steps=steps)


def replay(prop, cls, case):
    if case.get("variant") == "fresh-interpreter":
        a = pool.run_tasks(variant, [dict(S=case["S"])], timeout=900)[0][1]
        b = fresh_interpreter(dict(S=case["S"], pre=case["pre"], between=case["between"]), 4242)
        return a["sem"] != b.get("sem"), dict(a=a, b=b)
    hit, ab = _differs(case)
    return hit, dict(pair=ab)


if __name__ == "__main__":
    if len(sys.argv) >= 3 and sys.argv[1] == "--variant":
        env.import_pybads()
        from . import world
        world.install_seams()
        arg = json.load(open(sys.argv[2]))
        print("C07VARIANT " + json.dumps(variant(arg)))
