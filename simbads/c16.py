"""C16: numerical failure of a GP hyperparameter fit never aborts the run.

Fault enumeration over fit invocation indices (and the posterior update inside
local refits): single faults, bursts of 2-4 consecutive fits, scattered plans."""
import collections
import copy
import time

from . import gen, harness, pool, run, runlevel
from .prng import stream

ATTEND = {"C01": None, "C02": None, "C04": None,
          "C03": {"func-count", "budget-exceeded", "max-iter-exceeded"}}


def bases(seed, n):
    prof = dict(name="c16", budget_kinds=["small", "mid"], budget_min=30, budget_max=90, noise=["none", "declared", "hetero"],
                noise_w=[4, 3, 3], fam_w=[6, 2, 1, 0, 1, 1, 1], cons_p=0.25, knobs=dict(n_train=0.5, max_iter=0.0, noise_final_samples=0.5, gp_warnings=0.4, double_refit=0.2, noise_nudge=0.35),
                where_w=[3, 2, 2, 3])
    return [gen.make_scenario(seed, prof, i) for i in range(n)]


def judge(case, rec):
    out = []
    if rec["outcome"] in ("exception", "ctor_crash"):
        e = rec["exc"]
        out.append((f"aborted:{e['type']}@{e['frame']}",
                    f"optimize() aborted with {e['type']} ({e['msg'][:120]}) in {e['frame']}:{e['line']} after injected GP fit failure(s) {case['faults']}"))
    elif rec["outcome"] == "simlimit":
        out.append(("no-termination", f"run hit a simulator cap ({rec.get('lim_reason')}) after injected GP fit failure(s)"))
    for v in rec["violations"]:
        if v["prop"] in ATTEND and (ATTEND[v["prop"]] is None or v["cls"] in ATTEND[v["prop"]]):
            out.append((f"{v['prop']}:{v['cls']}", "under GP fit faults: " + v["msg"]))
    return out


def main(tier):
    seed = harness.default_seed(tier)
    rep = harness.Report("C16", tier, seed)
    nb = 10 if tier == "quick" else 36
    bs = bases(seed, nb)
    t0 = time.time()
    brecs = harness.run_batch(run.run_scenario, bs, timeout=300, report=rep)
    cases = []
    for bi, (scn, r) in enumerate(zip(bs, brecs)):
        if r is None or r["outcome"] != "completed":
            continue
        M = r["fit_calls"]
        U = r["probes"].get("gp_refit", 0)
        L = r["lgf_calls"]
        rng = stream(seed, f"c16/{bi}")
        plans = []
        if tier == "quick":
            ks = sorted({1, 2, M} | {rng.randrange(1, M + 1) for _ in range(4)}) if M >= 1 else []
            for k in ks:
                plans.append([dict(seam="fit", k=k, len=gen._choice(rng, [1, 1, 2, 3, 4]), kind=gen._choice(rng, ["entry", "mid"]))])
            for _ in range(2):
                plans.append([dict(seam="fit", k=rng.randrange(1, M + 1), len=1, kind=gen._choice(rng, ["entry", "mid"]))
                              for _ in range(rng.randrange(2, 4))])
            if M >= 2:
                # a burst as long as the retry loop itself (every retry of one refit fails)
                plans.append([dict(seam="fit", k=rng.randrange(2, M + 1), len=rng.randrange(9, 13), kind=gen._choice(rng, ["entry", "mid"]))])
            if L:
                # boundary positions (first and last local refit) plus a random one
                for k in sorted({1, L, rng.randrange(1, L + 1)}):
                    plans.append([dict(seam="update", k=k)])
                # the fallback's posterior (previous hyperparameters, new training set) fails too, 1-3 times in a row
                for k in sorted({1, rng.randrange(1, L + 1)}):
                    plans.append([dict(seam="update", k=k, len=rng.randrange(2, 5))])
                plans.append([dict(seam="update", k=rng.randrange(1, L + 1)), dict(seam="fit", k=rng.randrange(1, M + 1), len=2, kind="mid")])
        else:
            for k in range(1, M + 1):
                for ln in (1, 2, 3, 4) if bi < 12 else (1 + (k % 4),):
                    plans.append([dict(seam="fit", k=k, len=ln, kind="mid" if (k + ln) % 2 else "entry")])
            for k in range(2, M + 1, 3):
                plans.append([dict(seam="fit", k=k, len=9 + (k % 4), kind="mid" if k % 2 else "entry")])
            for _ in range(12):
                plans.append([dict(seam="fit", k=rng.randrange(1, M + 1), len=gen._choice(rng, [1, 1, 2]), kind=gen._choice(rng, ["entry", "mid"]))
                              for _ in range(rng.randrange(2, 4))])
            for k in range(1, min(L, 60) + 1, 1 if bi < 6 else 5):
                plans.append([dict(seam="update", k=k)])
                plans.append([dict(seam="update", k=k, len=2 + (k % 3))])
            for _ in range(6 if L else 0):
                plans.append([dict(seam="update", k=rng.randrange(1, L + 1)), dict(seam="fit", k=rng.randrange(1, M + 1), len=rng.randrange(1, 4), kind="mid")])
        for pl in plans:
            c = copy.deepcopy(scn)
            c["faults"] = pl
            c["base_index"] = bi
            c["population"] = "faulted"
            cases.append(c)
    recs = harness.run_batch(run.run_scenario, cases, timeout=600, report=rep)
    fired = collections.Counter()
    nt = set()
    outcomes = collections.Counter()
    probes = collections.Counter()
    shapes = collections.Counter()
    samples = []
    beyond_obs = collections.Counter()
    for c, r in zip(cases, recs):
        if r is None:
            continue
        outcomes[r["outcome"]] += 1
        for k, v in r["fault_fired"].items():
            fired[k] += v
        for k in ("posterior_update_fallback", "second_fit", "gp_refit"):
            probes[k] += r["probes"].get(k, 0)
        if r["fault_fired"]:
            nt.add(harness.scn_digest(c))
            shapes["+".join(sorted(f["seam"] + str(f.get("len", 1)) for f in c["faults"]))] += 1
        beyond = any(f.get("len", 1) > 4 for f in c["faults"])
        for cls, msg in judge(c, r):
            if beyond:
                # bursts longer than the property's quantifier (2-4 in a row): observation only
                beyond_obs[cls] += 1
            else:
                rep.add_violation(cls, msg, c, "c16case")
        if len(samples) < 4 and r["fault_fired"]:
            samples.append(dict(base=c["base_index"], noise=c["noise_kind"], D=c["D"], faults=c["faults"], fired=r["fault_fired"],
                                outcome=r["outcome"], calls=r["n_calls"], fits=r["fit_calls"]))
    wall = time.time() - t0
    fit_positions = sum(r["fit_calls"] for r in brecs if r is not None and r["outcome"] == "completed")
    cov = dict(
        evaluations=len([r for r in recs if r is not None]) + len(bs),
        distinct_nontrivial=len(nt),
        rule="distinct (base run, fault plan) pairs in which at least one injected LinAlgError actually fired; non-trivial = fired",
        populations=dict(clean=len(bs), faulted=len(cases)),
        bases=dict(n=len(bs), completed=sum(1 for r in brecs if r is not None and r["outcome"] == "completed"),
                   by_noise=dict(collections.Counter(b["noise_kind"] for b in bs)), fit_positions=fit_positions),
        observations_beyond_quantifier=dict(note="bursts of 9-12 consecutive fit failures (as long as the retry loop) are outside the property's quantifier (runs of 2-4); outcomes are recorded here and never reported as violations",
                                            problems=dict(beyond_obs)),
        exhaustive=False, outcomes=dict(outcomes), fault_fired=dict(fired), fault_plan_shapes=dict(shapes), probes=dict(probes),
        runs_per_hour=int((len(cases) + len(bs)) / max(wall, 1e-9) * 3600),
        components=dict(real=["pybads", "gpyreg", "scipy", "numpy"], stub=["target", "constraint function", "clock"],
                        fault_shims=["GP.fit raises LinAlgError at entry or after replacing the training data", "GP.update (posterior update in local refit) raises LinAlgError, optionally also in the 1-3 following posterior computations of the fallback"]),
    )
    return rep.finish(cov, runlevel.COMMON_ASSUME + [
        "under faults the oracle asks only for completion plus the bounds (C01), feasibility (C02), counting/budget/max_iter (C03 a-c) and truthful-result (C04) monitors; no convergence requirement"],
        shrink_fn=shrink_c16, samples=samples)


def shrink_c16(prop, cls, kind, case):
    from . import shrink
    small, info = shrink.shrink(case, run.run_scenario, lambda rec: any(c == cls for c, _ in judge(case, rec)),
                                max_runs=50, max_seconds=150)
    st, rec = pool.run_tasks(run.run_scenario, [small], timeout=300)[0]
    if st == "ok":
        info["digest"] = rec["digest"]
        info["fault_fired"] = rec["fault_fired"]
        info["tail"] = rec["tail"]
    return small, info


def replay(prop, cls, case):
    rec = run.run_scenario(case)
    probs = judge(case, rec)
    return any(c == cls for c, _ in probs), dict(outcome=rec["outcome"], fired=rec["fault_fired"], problems=probs)
