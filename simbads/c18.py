"""C18: search step - every ES/hedge call of full runs + a component workload on
the rank-selection mask over sampled (mu, lambda)."""
import time

from . import harness, runlevel
from . import world as W
from .prng import stream


def mask_batch(arg):
    seed, lo, hi = arg
    import pybads.search.es_search as es
    fn = es.ESSearch._get_selection_idx_mask_
    out = dict(n=0, problems=[], pairs=set())
    for i in range(lo, hi):
        rng = stream(seed, f"c18mask/{i}")
        t = rng.random()
        if t < 0.5:
            lamb = rng.randrange(1, 300)
        elif t < 0.9:
            lamb = rng.choice([1, 2, 3, 4, 8, 16, 32, 128, 512, 1024, 2048, 4096]) + rng.choice([0, 0, 1, -1]) * (rng.random() < 0.3)
            lamb = max(1, lamb)
        else:
            lamb = rng.randrange(300, 5000)
        mu = rng.randrange(1, lamb + 1) if rng.random() < 0.8 else rng.choice([1, 2, 3, lamb])
        out["n"] += 1
        out["pairs"].add((mu, lamb))
        try:
            m = fn(None, mu, lamb)
        except Exception as e:   # noqa
            out["problems"].append(("mask-raised", f"_get_selection_idx_mask_({mu}, {lamb}) raised {type(e).__name__}: {e}", dict(mu=mu, lamb=lamb)))
            continue
        for cls, msg in W.check_selection_mask(None, m, mu, lamb):
            out["problems"].append((cls, msg, dict(mu=mu, lamb=lamb)))
    out["pairs"] = len(out["pairs"])
    return out


def replay_mask(prop, cls, case):
    import pybads.search.es_search as es
    try:
        m = es.ESSearch._get_selection_idx_mask_(None, case["mu"], case["lamb"])
    except Exception as e:   # noqa
        return cls == "mask-raised", dict(raised=repr(e))
    probs = W.check_selection_mask(None, m, case["mu"], case["lamb"])
    return any(c == cls for c, _ in probs), dict(problems=probs)


def main(tier):
    seed = harness.default_seed(tier)
    n = 20000 if tier == "quick" else 600000
    per = 1250 if tier == "quick" else 20000
    rep0 = harness.Report("C18", tier, seed)
    outs = harness.run_batch(mask_batch, [(seed, lo, min(lo + per, n)) for lo in range(0, n, per)], timeout=1800, report=rep0)
    n_done = pairs = 0
    found = {}
    for o in outs:
        if o is None:
            continue
        n_done += o["n"]
        pairs += o["pairs"]
        for cls, msg, case in o["problems"]:
            if cls not in found or case["lamb"] < found[cls][1]["lamb"]:
                found[cls] = (msg, case)
    extra = dict(selection_mask_workload=dict(calls=n_done, distinct_pairs_upper_bound=pairs,
                                              note="(mu, lambda) with 1 <= mu <= lambda <= 5000 sampled; the exhaustive clause of the property is sampled, not enumerated"))

    def post(rep, cases, recs, cov):
        for cls, (msg, case) in found.items():
            rep.add_violation(cls, "selection-mask workload: " + msg, case, "c18mask")
        rep.harness_errors.extend(rep0.harness_errors)
        cov["evaluations"] += n_done
        cov["rule"] = "selection-mask workload: sampled (mu, lambda) pairs judged for range/monotonicity; runs: " + cov["rule"]
    return runlevel.main("C18", tier, extra_cov=extra, post=post)
