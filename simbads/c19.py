"""C19: history/result consistency over full runs + container machine."""
import collections
import time

from . import containers, harness, runlevel


def main(tier):
    seed = harness.default_seed(tier)
    n = 20000 if tier == "quick" else 1000000
    per = 1000 if tier == "quick" else 10000
    tasks = [(seed, lo, min(lo + per, n)) for lo in range(0, n, per)]
    rep0 = harness.Report("C19", tier, seed)
    t0 = time.time()
    outs = harness.run_batch(containers.run_batch, tasks, timeout=1800, report=rep0)
    shapes = set()
    n_done = n_ops = 0
    found = {}
    csamples = []
    for o in outs:
        if o is None:
            continue
        n_done += o["n"]
        n_ops += o["ops"]
        shapes.update(o["shapes"])
        if len(csamples) < 2:
            csamples.extend(o["samples"])
        for i, c, probs in o["problems"]:
            for cls, msg, opi in probs:
                if cls not in found or len(c["ops"]) < len(found[cls][0]["ops"]):
                    found[cls] = (c, f"container history #{i}, operation {opi}: {msg}")
    extra = dict(container_machine=dict(histories=n_done, operations=n_ops, distinct_op_shapes=len(shapes),
                                        histories_per_hour=int(n_done / max(time.time() - t0, 1e-9) * 3600), samples=csamples))

    def post(rep, cases, recs, cov):
        for cls, (c, msg) in found.items():
            small, info = containers.shrink(c, cls)
            rep.add_violation(cls, msg, small, "container")
        rep.harness_errors.extend(rep0.harness_errors)
        cov["evaluations"] += n_done
        cov["distinct_nontrivial"] += len(shapes)
        cov["rule"] = ("container machine: seeded op sequences on IterationHistory (record / record_iteration / setitem, bad keys, negative iterations, "
                       "caller mutating values afterwards) and OptimizeResult (set/get by key and attribute, unknown names) against a dict-of-lists model, "
                       "distinct = distinct op-kind shapes; runs: " + cov["rule"])
    return runlevel.main("C19", tier, extra_cov=extra, post=post)
