"""Process environment for every simbads entry point.

Must be imported before numpy. Pins BLAS/OpenMP threads to one (the scheduler
of a thread pool inside a dependency is a source of nondeterminism we do not
own), switches the guarded hook in /repo on, and puts the working tree of the
repository (or $PYBADS_ROOT for self-tests on scratch copies) first on
sys.path so that it wins over the editable install.
"""
import os
import sys

for _v in ("OMP_NUM_THREADS", "OPENBLAS_NUM_THREADS", "MKL_NUM_THREADS",
           "NUMEXPR_NUM_THREADS", "VECLIB_MAXIMUM_THREADS"):
    os.environ[_v] = "1"
os.environ["PYBADS_VERIF"] = "1"
os.environ.setdefault("MPLBACKEND", "Agg")

PYBADS_ROOT = os.environ.get("PYBADS_ROOT", "/repo")
VERIF_ROOT = os.path.dirname(os.path.dirname(os.path.abspath(__file__)))

if PYBADS_ROOT not in sys.path[:1]:
    sys.path.insert(0, PYBADS_ROOT)


def ensure_hashseed():
    """Re-exec once with PYTHONHASHSEED=0 if it is not fixed already."""
    if os.environ.get("PYTHONHASHSEED") is None:
        os.environ["PYTHONHASHSEED"] = "0"
        argv = list(getattr(sys, "orig_argv", None) or [sys.executable] + sys.argv)
        os.execv(sys.executable, [sys.executable] + argv[1:])


def import_pybads():
    """Import pybads from PYBADS_ROOT and verify where it came from."""
    import logging
    # A NullHandler on the root logger makes pybads' logging.basicConfig a
    # no-op, so nothing is printed by the system under test.
    root = logging.getLogger()
    if not root.handlers:
        root.addHandler(logging.NullHandler())
    import warnings
    warnings.filterwarnings("ignore")
    import pybads  # noqa
    src = os.path.realpath(os.path.dirname(pybads.__file__))
    want = os.path.realpath(os.path.join(PYBADS_ROOT, "pybads"))
    if src != want:
        raise RuntimeError(f"pybads imported from {src}, expected {want}")
    import pybads.bads.bads as bb
    if not getattr(bb, "_VERIF_ON", False):
        raise RuntimeError("PYBADS_VERIF hook is not active in pybads.bads.bads")
    return pybads
