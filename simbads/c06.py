"""C06: bounded progress on smooth unimodal targets (fault-free population)."""
import collections
import json
import time

import numpy as np

from . import harness, pool, run, runlevel
from .prng import stream, subseed


OFFSETS = [1e3, -1e3, 1e5, -1e5]


def panel(seed, n, offset=False, unbounded=False):
    """offset=True: the same family plus a constant (|f*| far from zero, as for log-likelihoods);
    the constant changes neither the minimiser nor the conditioning."""
    cases = []
    for i in range(n):
        rng = stream(seed, f"c06{'o' if offset else ''}{'u' if unbounded else ''}/{i}")
        D = 1 + (i % 5)
        ev = [float(f"{10 ** rng.uniform(0, 2):.6g}") for _ in range(D)]
        c = [float(f"{rng.uniform(-4, 4):.6g}") for _ in range(D)]
        x0 = [float(f"{rng.uniform(-5, 5):.6g}") for _ in range(D)]
        scn = dict(v=1, seed=seed, profile="c06", index=i, D=D, lb=[-10.0] * D, ub=[10.0] * D, plb=[-5.0] * D, pub=[5.0] * D,
                   x0=x0, x0_class="inside", geom="sym", where="plausible",
                   target=dict(family="quad", c=c, ev=ev, rot_seed=subseed(seed, f"c06rot/{i}") if D > 1 else None,
                               offset=(OFFSETS[i % len(OFFSETS)] if offset else 0.0)),
                   noise=None, noise_kind="none", cons=None, options=dict(random_seed=subseed(seed, f"c06seed/{i}")),
                   clock=dict(mode="const"), faults=[], monitors=[], fstar=(OFFSETS[i % len(OFFSETS)] if offset else 0.0),
                   gap_tol=1e-2, population="offset" if offset else "clean")
        if unbounded:
            # no hard bounds at all (fully unconstrained problem), same plausible box
            scn["lb"], scn["ub"], scn["geom"], scn["population"] = None, None, "unbounded", "unbounded"
        cases.append(scn)
    return cases


def warm_panel(seed, n):
    """Warm starts: x0 is the minimiser itself (half of them exactly on the initial search mesh).
    Only the per-run clause 'never worse than the (mesh-snapped) starting point' is judged here."""
    cases = panel(seed + 7, n)
    for i, scn in enumerate(cases):
        rng = stream(seed, f"c06w/{i}")
        D = scn["D"]
        if i % 2 == 0:
            c = [-5.0 + 10.0 * rng.randrange(300, 1749) / 2048.0 for _ in range(D)]   # on the 2**-10 mesh of [-5, 5]
        else:
            c = [float(f"{rng.uniform(-4, 4):.6g}") for _ in range(D)]
        scn["target"]["c"] = c
        scn["x0"] = list(c)
        scn["where"] = "x0"
        scn["population"] = "warm"
        scn["profile"] = "c06warm"
    return cases


def judge_panel(recs):
    n = len(recs)
    within = 0
    ratios = []
    for scn, r in recs:
        ok = r is not None and r["outcome"] == "completed" and r.get("gap") is not None and r["gap"] <= 1e-3
        within += bool(ok)
        if r is not None and r.get("evals_to_tol") is not None:
            ratios.append(r["evals_to_tol"] / scn["D"])
        else:
            ratios.append(float("inf"))
    frac = within / max(n, 1)
    med = float(np.median(ratios)) if ratios else float("inf")
    return frac, med, ratios


def main(tier):
    seed = harness.default_seed(tier)
    rep = harness.Report("C06", tier, seed)
    n = 80 if tier == "quick" else 960
    n_off = 64 if tier == "quick" else 480
    n_warm = 24 if tier == "quick" else 240
    n_unb = 64 if tier == "quick" else 480
    cases = panel(seed, n) + panel(seed, n_off, offset=True) + panel(seed, n_unb, unbounded=True) + warm_panel(seed, n_warm)
    t0 = time.time()
    recs = harness.run_batch(run.run_scenario, cases, timeout=600, report=rep)
    pairs = list(zip(cases, recs))
    outcomes = collections.Counter()
    never_worse_checked = 0
    tcalls = 0
    samples = []
    for scn, r in pairs:
        if r is None:
            continue
        outcomes[r["outcome"]] += 1
        tcalls += r["n_calls"]
        if r["outcome"] != "completed":
            cc = runlevel.crash_class(r) if r.get("exc") else r["outcome"]
            rep.add_violation("run-failed:" + cc, "a default-option run on a smooth convex target did not complete: " + cc, scn, "scenario")
            continue
        never_worse_checked += 1
        if r["f_ret_true"] > r["f_first"]:
            rep.add_violation("worse-than-start", f"returned point is worse than the (snapped) starting point: f(x)={r['f_ret_true']!r} > f(start)={r['f_first']!r}",
                              scn, "scenario")
        if len(samples) < 3:
            samples.append(dict(index=scn["index"], D=scn["D"], ev=scn["target"]["ev"], c=scn["target"]["c"], x0=scn["x0"],
                                gap=r["gap"], evals_to_1e_2=r["evals_to_tol"], n_calls=r["n_calls"]))
    frac, med, ratios = judge_panel(pairs[:n])
    frac_o, med_o, ratios_o = judge_panel(pairs[n:n + n_off])
    frac_u, med_u, ratios_u = judge_panel(pairs[n + n_off:n + n_off + n_unb])
    for nn, fr, md, off in ((n, frac, med, False), (n_off, frac_o, med_o, True), (n_unb, frac_u, med_u, "unbounded")):
        if nn >= 60:
            tag = "-unbounded" if off == "unbounded" else ("-offset" if off else "")
            if fr < 0.90:
                rep.add_violation("panel-accuracy" + tag, f"only {fr:.3f} of the {(off if isinstance(off, str) else 'offset') + ' ' if off else ''}panel of {nn} returned a value within 1e-3 of the minimum (>= 0.90 required)",
                                  dict(seed=seed, n=nn, offset=off), "c06panel")
            if md > 40:
                rep.add_violation("panel-speed" + tag, f"{(off if isinstance(off, str) else 'offset') + ' ' if off else ''}panel median evaluations-to-1e-2 is {md:.1f}*D (<= 40*D required)",
                                  dict(seed=seed, n=nn, offset=off), "c06panel")
    wall = time.time() - t0
    fin = [x for x in ratios if np.isfinite(x)]
    cov = dict(
        evaluations=len([r for r in recs if r is not None]),
        distinct_nontrivial=len({harness.scn_digest(s) for s, r in pairs if r is not None and r["outcome"] == "completed"}),
        rule="seeded panel of random rotated quadratics (eigenvalues log-uniform in [1,100], minimiser in [-4,4]^D, x0 in [-5,5]^D, box [-10,10]^D, D cycling 1..5, default options); non-trivial = completed run",
        unbounded_panel=dict(n=n_unb, fraction_within_1e_3=frac_u, median_evals_to_1e_2_per_D=med_u,
                             note="same family with no hard bounds (lower_bounds = upper_bounds = None)"),
        warm_start_runs=dict(n=n_warm, note="x0 = minimiser (half exactly on the initial search mesh); only never-worse-than-start is judged"),
        offset_panel=dict(n=n_off, offsets=OFFSETS, fraction_within_1e_3=frac_o, median_evals_to_1e_2_per_D=med_o,
                          note="same family plus a constant offset (|f*| up to 1e5): still smooth convex targets of the statement"),
        panel=dict(n=n, fraction_within_1e_3=frac, median_evals_to_1e_2_per_D=med,
                   p90_evals_to_1e_2_per_D=float(np.percentile(fin, 90)) if fin else None,
                   never_reached_1e_2=len(ratios) - len(fin), never_worse_than_start_checked=never_worse_checked),
        thresholds=dict(fraction_within_1e_3=">= 0.90", median_evals_to_1e_2="<= 40*D"),
        outcomes=dict(outcomes), target_calls=tcalls, runs_per_hour=int(len(cases) / max(wall, 1e-9) * 3600),
        fault_fired={}, populations=dict(clean=len(cases)),
        components=dict(real=["pybads", "gpyreg", "scipy", "numpy"], stub=["target", "clock"], fault_shims=[]),
    )
    return rep.finish(cov, runlevel.COMMON_ASSUME + ["population guarantee: thresholds are the property's; the measured margin (about 0.99 / 12*D) protects against false alarms"],
                      shrink_fn=lambda p, c, k, case: runlevel.shrink_case(p, c, k, case, tier) if k == "scenario" else (case, {}),
                      samples=samples)


def replay_panel(prop, cls, case):
    cases = panel(case["seed"], case["n"], offset=(case.get("offset") is True), unbounded=(case.get("offset") == "unbounded"))
    res = pool.run_tasks(run.run_scenario, cases, timeout=600)
    pairs = [(s, r if st == "ok" else None) for s, (st, r) in zip(cases, res)]
    frac, med, _ = judge_panel(pairs)
    hit = (cls.startswith("panel-accuracy") and frac < 0.90) or (cls.startswith("panel-speed") and med > 40)
    return hit, dict(fraction_within_1e_3=frac, median_per_D=med)
