"""Run-level checks: a population of full simulated runs judged by the online
monitors and history oracles; each check attends to the violations of its own
property (and reports crashes of other kinds as 'aborted_unrelated')."""
import collections
import copy
import json
import time

from . import gen, harness, pool, run, shrink
from .prng import stream, subseed

# ---------------------------------------------------------------------------
# per-property configuration
# ---------------------------------------------------------------------------

COMMON_ASSUME = [
    "pybads, gpyreg, scipy, numpy run as real code from /repo's working tree (PYBADS_ROOT) and /venv",
    "target, constraint function and clock are simulator stubs; GP.fit/update/predict carry fault shims",
    "monitors never draw random numbers nor read a clock, so observing a run does not change it",
    "a clean batch is evidence over the explored scenarios, not a proof",
]


def _nontrivial_default(r):
    return r["outcome"] == "completed" and r["n_polls"] >= 1 and r["n_searches"] >= 1


def _k(rng, kmax):
    # fault positions biased toward the early invocations (small runs have few of them)
    return 1 + int((kmax - 1) * rng.random() ** 2.5)


def _fault_plan(rng, kinds, nmax=3):
    faults = []
    for _ in range(rng.randrange(1, nmax + 1)):
        k = gen._choice(rng, kinds)
        if k == "fit":
            faults.append(dict(seam="fit", k=_k(rng, 25), len=gen._choice(rng, [1, 1, 2, 3, 4]),
                               kind=gen._choice(rng, ["entry", "mid"])))
        elif k == "update":
            faults.append(dict(seam="update", k=_k(rng, 40), len=gen._choice(rng, [1, 1, 2, 3])))
        elif k == "acq":
            faults.append(dict(seam="acq", k=_k(rng, 80), kind=gen._choice(rng, ["nan_some", "nan_some", "nanvar_some", "negvar_some", "nan_all"]),
                               stride=rng.randrange(2, 9), phase=rng.randrange(0, 8)))
        elif k == "predict":
            faults.append(dict(seam="predict", k=_k(rng, 60),
                               kind=gen._choice(rng, ["nan_mean", "inf_mean", "nan_var", "neg_var"])))
    return faults


CFG = {
    "C01": dict(
        profile=dict(name="c01", reuse_arrays_p=0.25, geom_w=[2, 3, 3, 4, 4, 2, 2, 1, 6], x0_w=[3, 3, 2, 1], where_w=[2, 2, 3, 5, 1],
                     cons_p=0.33, fam_w=[5, 2, 1, 0, 3, 1, 2]),
        n=dict(quick=128, thorough=4000), faulted=0.25, fault_kinds=["fit", "predict"],
        # starts just inside a hard bound (beyond the constructor's nudge zone, within a search-mesh step) on coarse
        # and default search meshes, linear and log coordinates: snapping to the mesh must not leave the box
        extra=[(dict(name="c01edge", x0=["just_inside"], x0_w=[1], geom=["asym", "log", "mixedlog", "tight", "sym", "aligned"], geom_w=[3, 3, 2, 2, 1, 1],
                     where=["face", "outside", "x0", "plausible"], where_w=[2, 2, 1, 1], cons_p=0.1, budget_kinds=["small"], noise_w=[5, 1, 1, 1],
                     knobs=dict(search_grid_number=0.5, max_iter=0.0)), 32, 600)],
        rule="distinct scenarios whose run completed with >=1 poll and >=1 search step (every target/constraint call and the final log judged)",
    ),
    "C02": dict(
        profile=dict(name="c02", cons_p=1.0, reuse_arrays_p=0.15, pre_relaxed_p=0.2, x0_w=[5, 1, 4, 0], x0_infeasible_p=0.1, x0_nearcons_p=0.12, x0_infeasible_near_p=0.12,
                     geom_w=[3, 3, 2, 3, 3, 1, 1, 1, 3], where_w=[3, 2, 2, 3, 1], noise_w=[4, 1, 2, 2],
                     knobs=dict(n_search=0.5, force_poll_mesh=0.25, search_grid_number=0.3)),
        n=dict(quick=128, thorough=4000),
        # constrained optimum pushed into the corner where an oblique/non-convex constraint meets a hard bound that is
        # not aligned with the search mesh (clamping to the bound and projecting to the mesh-rounded bound differ there)
        extra=[(dict(name="c02corner", cons_p=1.0, cons=["corner", "halfspace", "annulus", "slab"], cons_w=[6, 1, 2, 1], geom=["sym", "asym", "tight"], geom_w=[2, 3, 1],
                     where=["outside", "face"], where_w=[3, 2], fam=["quad", "abs", "linear"], fam_w=[3, 1, 2], noise=["none"], noise_w=[1],
                     D=[2, 2, 3], x0=["inside"], x0_w=[1], budget_kinds=["mid"], budget_min=40, knobs=dict(n_search=0.3, max_iter=0.0)), 32, 500),
               # infeasible centre of the plausible box (= origin of the internal coordinates, a node of every mesh) in low
               # dimension, start on a coarse lattice point: polls and searches keep proposing the origin itself
               (dict(name="c02hole", cons_p=1.0, cons=["hole"], cons_w=[1], geom=["sym", "asym", "tight"], geom_w=[3, 1, 4], D=[1, 1, 1, 2],
                     where=["plausible"], where_w=[1], fam=["quad", "abs"], fam_w=[1, 1], noise=["none", "declared"], noise_w=[3, 1],
                     x0=["inside"], x0_w=[1], budget_kinds=["small"], knobs=dict(max_iter=0.0)), 24, 300)],
        nontrivial=lambda r: (r["outcome"] == "completed" and r["n_polls"] >= 1 and r["n_calls"] >= 5) or
                             (r["outcome"] == "ctor_valueerror"),
        rule="distinct constrained scenarios: completed runs with >=5 evaluations and >=1 poll, or constructor rejections (infeasible / near-boundary x0)",
    ),
    "C03": dict(
        profile=dict(name="c03", rare_knobs=0.25, gate_p=0.5, fam_w=[3, 1, 1, 1, 1, 0, 7], budget_kinds=["tiny", "small", "small", "mid", "mid", "large"],
                     knobs=dict(max_iter=0.4, tol_mesh=0.5, complete_poll=0.3, accelerate_mesh=0.4, tol_stall_iters=0.3),
                     noise_w=[5, 1, 2, 2], cons_p=0.3, cons_w=[2, 2, 2, 2, 1, 2, 4], geom_w=[4, 4, 2, 2, 2, 2, 2, 1, 3]),
        n=dict(quick=160, thorough=6000), hang_is_violation=True,
        nontrivial=lambda r: r["outcome"] == "completed" and r["loop_iters"] >= 1,
        rule="distinct scenarios whose run terminated normally after >=1 main-loop iteration (budget, counters, non-progress bound and message judged)",
    ),
    "C04": dict(
        profile=dict(name="c04", noise=["none"], noise_w=[1], fam_w=[4, 2, 3, 1, 2, 1, 3], where_w=[3, 2, 3, 2, 1], cons_p=0.3, knobs=dict(tol_noise=0.2, stobads=0.25, complete_poll=0.4)),
        n=dict(quick=128, thorough=4000),
        rule="distinct deterministic scenarios completed with >=1 poll and >=1 search step",
    ),
    "C05": dict(
        profile=dict(name="c05", declared0_p=0.7, noise=["none", "auto", "declared", "hetero"], noise_w=[2, 3, 3, 3],
                     fam_w=[6, 2, 1, 0, 1, 1, 0], knobs=dict(noise_final_samples=0.85), budget_min=30,
                     nfs_choices=[0, 1, 1, 1, 1, 2, 3, 5, 10], sigma_log10=(-2, 1.0), budget_max=160, where_w=[4, 2, 2, 2, 3],
                     budget_kinds=["small", "mid", "mid", "large"], cons_p=0.15),
        n=dict(quick=96, thorough=3000),
        # single final sample under specified noise with the start already optimal: the supplementary
        # observation/SD must come from the record of x (record 0 of the log)
        extra=[(dict(name="c05single", noise=["hetero", "declared"], noise_w=[3, 1], nfs_choices=[1], knobs=dict(noise_final_samples=1.0),
                     where=["x0", "plausible"], where_w=[3, 1], x0=["inside"], x0_w=[1], fam=["quad", "abs"], fam_w=[3, 1],
                     budget_kinds=["small", "mid"], budget_min=30, cons_p=0.0, sigma_log10=(-2, 0.5)), 24, 400)],
        nontrivial=lambda r: r["outcome"] == "completed" and (r["probes"].get("c05_final_checked", 0) > 0
                                                              or r["probes"].get("noise_test_run", 0) > 0),
        rule="distinct scenarios where the final-sampling clause or the noise-detection clause was actually evaluated",
    ),
    "C09": dict(
        profile=dict(name="c09", rare_knobs=0.3, gate_p=0.2, declared0_p=0.15, budget_kinds=["tiny", "tiny", "small", "small", "mid"], budget_min=4, noisy_budget_min=4,
                     knobs=dict(max_iter=0.35, cache_size=0.6, n_search=0.6, fun_eval_start=0.4, n_train=0.4,
                                noise_final_samples=0.7, tol_mesh=0.3, noise_size=0.3),
                     fam_w=[4, 2, 2, 2, 1, 1, 3], cons_p=0.4, cons_w=[2, 2, 3, 2, 1, 3, 2], noise_w=[3, 2, 3, 3]),
        n=dict(quick=192, thorough=10000), faulted=0.3, fault_kinds=["predict", "fit1"],
        # specified noise with the start already optimal in low dimension: the first record of the log is
        # observed again and again (repeat merges into record 0)
        extra=[(dict(name="c09x0", D=[1, 1, 2], noise=["hetero"], noise_w=[1], where=["x0"], where_w=[1], x0=["inside"], x0_w=[1],
                     fam=["quad", "abs"], fam_w=[3, 1], cons_p=0.0, sigma_log10=(-3, -1), budget_kinds=["mid"], geom=["sym", "asym"], geom_w=[1, 1],
                     knobs=dict(noise_final_samples=0.5)), 16, 300),
               # every noise mode x a final re-sampling stage of 0 / 1 / 2 samples, runs long enough to poll twice
               (dict(name="c09nfs", noise=["auto", "declared", "hetero"], noise_w=[2, 1, 1], nfs_choices=[1, 1, 0, 2],
                     knobs=dict(noise_final_samples=1.0, max_iter=0.0), fam=["quad", "abs"], fam_w=[3, 1], cons_p=0.1,
                     budget_kinds=["small", "mid"], budget_min=30), 24, 400),
               # deep convergence on smooth targets: near-coincident training points, ill-conditioned covariance matrices
               (dict(name="c09deep", fam=["quad"], fam_w=[1], noise=["none"], noise_w=[1], geom=["sym", "asym"], geom_w=[1, 1], x0=["inside"], x0_w=[1],
                     where=["plausible"], where_w=[1], cons_p=0.0, D=[1, 2, 3, 4], rare_knobs=0.0, fmul_p=0.0, knobs=dict(max_iter=0.0, n_train=0.0, cache_size=0.0, fun_eval_start=0.0, accelerate_mesh=0.0, complete_poll=0.0, tol_fun=0.0, tol_noise=0.0),
                     force_options=dict(tol_mesh=1e-12, tol_stall_iters=50, max_fun_evals=400)), 8, 100)],
        nontrivial=lambda r: r["outcome"] in ("completed", "exception", "ctor_crash"),
        rule="distinct valid scenarios that were constructed and run to an outcome (completed or crashed)",
    ),
    "C13": dict(
        profile=dict(name="c13", rare_knobs=0.25, gate_p=0.3, fam_w=[3, 1, 1, 1, 1, 0, 7], knobs=dict(max_iter=0.2, tol_mesh=0.5, complete_poll=0.3, search_size_locked=0.2, search_mesh_increment=0.2,
                                                                         accelerate_mesh=0.5, tol_stall_iters=0.3),
                     budget_kinds=["small", "mid", "mid", "large"], noise_w=[5, 1, 2, 2], cons_p=0.2),
        n=dict(quick=160, thorough=6000),
        nontrivial=lambda r: r["outcome"] == "completed" and r["n_polls"] >= 2,
        rule="distinct scenarios completed with >=2 poll steps (each poll step judged against the reference mesh rule)",
    ),
    "C14": dict(
        profile=dict(name="c14", rare_knobs=0.2, fam_w=[4, 1, 1, 0, 1, 1, 4], cons_p=0.2, where_w=[3, 2, 3, 2, 1]),
        n=dict(quick=96, thorough=3000),
        # noisy runs long enough for the history re-evaluation to switch the incumbent back to an
        # earlier iterate: the next poll must be centred on the switched incumbent
        extra=[(dict(name="c14noisy", noise=["declared", "hetero", "auto"], noise_w=[2, 2, 1], sigma_log10=(-0.5, 1.0),
                     fam=["quad", "abs"], fam_w=[3, 1], budget_kinds=["mid", "large"], budget_min=60, budget_max=140,
                     cons_p=0.0, D=[1, 2, 2, 3], knobs=dict(max_iter=0.0, noise_final_samples=0.3)), 24, 400)],
        nontrivial=lambda r: r["outcome"] == "completed" and r["n_polls"] >= 2,
        rule="distinct scenarios completed with >=2 poll steps (every polled point matched against the generated basis)",
    ),
    "C15": dict(
        profile=dict(name="c15", noise_w=[3, 1, 3, 4], fam_w=[6, 2, 1, 0, 1, 1, 1], monitors=["acq"],
                     knobs=dict(n_train=0.5, n_search=0.5), cons_p=0.15, budget_kinds=["small", "mid", "mid"]),
        # a quarter of the runs suffer a failed posterior update of a local fit (possibly repeated in its fallback) or a
        # single failed hyperparameter fit: the surrogate that comes out must still be built on the nearest logged points
        n=dict(quick=96, thorough=3000), faulted=0.25, fault_kinds=["update", "fit1"],
        # start (and optimum) far outside a plausible box of ordinary size inside a huge hard box: internal
        # coordinates of 1e6..1e8, where a careless squared-distance formula loses all its digits
        extra=[(dict(name="c15far", geom=["vast", "huge"], geom_w=[3, 1], x0=["far", "hard_not_plausible"], x0_w=[3, 1], where=["x0", "hard"], where_w=[3, 1],
                     fam=["quad", "abs"], fam_w=[3, 1], noise_w=[3, 0, 2, 2], cons_p=0.0, monitors=["acq"],
                     budget_kinds=["mid"], budget_min=50, knobs=dict(n_train=0.9, max_iter=0.0)), 24, 400),
               # deep convergence: mesh and GP length scales shrink to ~1e-9 of the coordinates (conditioning, rounding of the scaled metric)
               (dict(name="c15deep", fam=["quad"], fam_w=[1], noise=["none"], noise_w=[1], geom=["sym", "asym"], geom_w=[1, 1], x0=["inside"], x0_w=[1],
                     where=["plausible"], where_w=[1], cons_p=0.0, D=[1, 2, 3, 4], rare_knobs=0.0, fmul_p=0.0, knobs=dict(max_iter=0.0, n_train=0.0, cache_size=0.0, fun_eval_start=0.0, accelerate_mesh=0.0, complete_poll=0.0, tol_fun=0.0, tol_noise=0.0),
                     force_options=dict(tol_mesh=1e-12, tol_stall_iters=50, max_fun_evals=400), monitors=["acq"]), 8, 100)],
        nontrivial=lambda r: r["outcome"] == "completed" and r["lgf_calls"] >= 2 and r["acq_calls"] >= 2,
        rule="distinct scenarios completed with >=2 local GP fits and >=2 acquisition evaluations, all judged",
    ),
    "C17": dict(
        profile=dict(name="c17", where_w=[2, 1, 4, 4, 1], noise_w=[7, 1, 1, 1], cons_p=0.45, knobs=dict(force_poll_mesh=0.3), fam_w=[5, 2, 2, 1, 3, 1, 2],
                     geom_w=[3, 3, 3, 2, 2, 1, 2, 1, 3]),
        n=dict(quick=128, thorough=4000),
        nontrivial=lambda r: r["outcome"] == "completed" and r["filter_calls"] >= 3,
        rule="distinct scenarios completed with >=3 candidate-filter calls, every output judged",
    ),
    "C18": dict(
        profile=dict(name="c18", rare_knobs=0.25, knobs=dict(n_search=0.75, search_method=0.45), cons_p=0.45, cons_w=[2, 2, 3, 2, 1, 3, 1],
                     fam_w=[5, 2, 1, 1, 1, 1, 3], budget_kinds=["small", "mid", "mid"]),
        n=dict(quick=128, thorough=4000), faulted=0.3, fault_kinds=["acq"], fault_nmax=6,
        nontrivial=lambda r: r["outcome"] == "completed" and r["es_calls"] >= 2,
        rule="distinct scenarios completed with >=2 evolution-strategy calls, each judged against all acquisition values it computed",
    ),
    "C19": dict(
        profile=dict(name="c19", declared0_p=0.2, noise_w=[3, 2, 3, 3], fam_w=[6, 2, 1, 1, 1, 1, 1], knobs=dict(noise_final_samples=0.6),
                     budget_kinds=["small", "mid", "mid"], budget_min=25),
        n=dict(quick=96, thorough=3000),
        nontrivial=lambda r: r["outcome"] == "completed" and r["n_polls"] >= 2,
        rule="distinct scenarios completed with >=2 recorded iterations (history and result judged against the call log)",
    ),
}

# which violation properties a check attends to
ATTEND = {p: {p} for p in CFG}


def make_cases(prop, tier, seed, n=None):
    cfg = CFG[prop]
    n = n or cfg["n"][tier]
    cases = []
    for i in range(n):
        scn = gen.make_scenario(seed, cfg["profile"], i)
        pf = cfg.get("faulted", 0.0)
        if pf:
            rng = stream(seed, f"faults/{prop}/{i}")
            if rng.random() < pf:
                kinds = [k for k in cfg["fault_kinds"]]
                if "fit1" in kinds:
                    # single fit fault only
                    kinds = [k for k in kinds if k != "fit1"]
                    if rng.random() < 0.5:
                        scn["faults"] = [dict(seam="fit", k=_k(rng, 12), len=1, kind=gen._choice(rng, ["entry", "mid"]))]
                    else:
                        scn["faults"] = _fault_plan(rng, kinds, 2)
                else:
                    scn["faults"] = _fault_plan(rng, kinds, cfg.get("fault_nmax", 3))
                scn["population"] = "faulted"
        scn.setdefault("population", "clean")
        cases.append(scn)
    # extra, narrowly targeted sub-populations (states that the broad swarm reaches too rarely)
    for prof2, nq, nt in cfg.get("extra", []):
        m = nq if tier == "quick" else nt
        if n is not None and n < cfg["n"][tier]:
            m = max(1, int(m * n / cfg["n"][tier]))
        for i in range(m):
            scn = gen.make_scenario(seed, prof2, i)
            scn["population"] = "clean:" + prof2["name"]
            cases.append(scn)
    return cases


def crash_class(r):
    e = r.get("exc") or {}
    return f"crash:{e.get('type')}@{e.get('frame')}"


def judge_for(prop, cls):
    def judge(rec):
        if prop == "C06":
            if cls == "worse-than-start":
                return rec.get("outcome") == "completed" and rec.get("f_ret_true") is not None and rec["f_ret_true"] > rec["f_first"]
            if cls.startswith("run-failed:"):
                return rec.get("outcome") != "completed"
        if cls.startswith("crash:"):
            return rec.get("outcome") in ("exception", "ctor_crash") and crash_class(rec) == cls
        return any(v["prop"] == prop and v["cls"] == cls for v in rec.get("violations", []))
    return judge


def shrink_case(prop, cls, kind, case, tier="quick"):
    if kind != "scenario":
        return case, {}
    budget = dict(max_runs=60, max_seconds=150) if tier == "quick" else dict(max_runs=150, max_seconds=300)
    small, info = shrink.shrink(case, run.run_scenario, judge_for(prop, cls), **budget)
    # confirm in a fresh child and store its digest
    st, rec = pool.run_tasks(run.run_scenario, [small], timeout=300)[0]
    if st == "ok":
        info["digest"] = rec["digest"]
        info["reproduced"] = judge_for(prop, cls)(rec)
        info["tail"] = rec.get("tail")
        info["fault_fired"] = rec.get("fault_fired")
    return small, info


def summarize(scn):
    return {k: scn.get(k) for k in ("index", "D", "geom", "where", "noise_kind", "x0_class", "population")} | {
        "target": scn["target"]["family"], "cons": (scn.get("cons") or {}).get("gen_kind"),
        "options": scn.get("options"), "faults": scn.get("faults")}


def main(prop, tier, n=None, extra_cov=None, cases=None, post=None):
    seed = harness.default_seed(tier)
    cfg = CFG[prop]
    rep = harness.Report(prop, tier, seed)
    if cases is None:
        cases = make_cases(prop, tier, seed, n)
    t0 = time.time()
    wall_cap = float(cfg.get("wall_cap", {}).get(tier, 0) or (900 if tier == "quick" else 3 * 3600))
    recs = harness.run_batch(run.run_scenario, cases, timeout=240 if tier == "quick" else 600, report=rep,
                             hang_is_violation=cfg.get("hang_is_violation", False), deadline=t0 + wall_cap)
    nontrivial = cfg.get("nontrivial", _nontrivial_default)
    attend = ATTEND[prop]
    outcomes = collections.Counter()
    aborted = collections.Counter()
    probes = collections.Counter()
    fired = collections.Counter()
    pops = collections.Counter()
    digests_nt = set()
    trajs = set()
    ctrl = set()
    sim_s = 0.0
    tcalls = 0
    seam_calls = collections.Counter()
    key_sets = set()
    samples = []
    done = 0
    for scn, r in zip(cases, recs):
        if r is None:
            continue
        done += 1
        outcomes[r["outcome"]] += 1
        pops[scn.get("population", "clean")] += 1
        for k, v in r["probes"].items():
            probes[k] += v
        for k, v in r["fault_fired"].items():
            fired[k] += v
        sim_s += r["sim_seconds"]
        tcalls += r["n_calls"]
        for k in ("fit_calls", "lgf_calls", "acq_calls", "es_calls", "filter_calls", "n_polls", "n_searches", "loop_iters", "cons_rows"):
            seam_calls[k] += r.get(k, 0)
        trajs.add(r["traj"])
        for st in r.get("ctrl_states", []):
            ctrl.add(tuple(st))
        if r.get("result_keys"):
            key_sets.add(tuple(r["result_keys"]))
        if r["outcome"] in ("exception", "ctor_crash"):
            cc = crash_class(r)
            if prop == "C09":
                if not (r.get("exc") or {}).get("is_injected"):
                    rep.add_violation(cc, f"{r['exc']['type']}: {r['exc']['msg'][:160]} (innermost pybads frame {r['exc']['frame']}:{r['exc']['line']})",
                                      scn, "scenario", extra={"frame": r["exc"]["frame"], "exc": r["exc"]["type"]})
            else:
                aborted[cc] += 1
        if r["outcome"] == "simlimit" and prop != "C03":
            aborted["simlimit:" + str(r.get("lim_reason"))] += 1
        for v in r["violations"]:
            if v["prop"] in attend:
                rep.add_violation(v["cls"], v["msg"] + " " + json.dumps(v["detail"], default=str)[:300], scn, "scenario", prop=v["prop"])
        try:
            if nontrivial(r):
                digests_nt.add(harness.scn_digest(scn))
                if len(samples) < 3:
                    samples.append(summarize(scn) | {"outcome": r["outcome"], "n_calls": r["n_calls"],
                                                     "n_polls": r["n_polls"], "n_searches": r["n_searches"], "digest": r["digest"]})
        except KeyError:
            pass
    if prop == "C19" and len(key_sets) > 1:
        rep.add_violation("result-key-set-varies", f"OptimizeResult exposed {len(key_sets)} different field sets across runs",
                          {"key_sets": [list(k) for k in key_sets]}, "note")
    # determinism sample: re-execute ~3% (at least 2) in other children and compare digests
    idx = [i for i, r in enumerate(recs) if r is not None]
    step = max(1, len(idx) // max(2, len(idx) // 33))
    resample = idx[::step][:12]
    again = pool.run_tasks(run.run_scenario, [cases[i] for i in resample], timeout=600, workers=5)
    n_det_ok = 0
    for i, (st, r2) in zip(resample, again):
        if st != "ok":
            rep.harness_error({"determinism_rerun": st, "payload": r2})
        elif r2["digest"] != recs[i]["digest"]:
            rep.harness_error({"nondeterministic": harness.scn_digest(cases[i]), "d1": recs[i]["digest"], "d2": r2["digest"]})
        else:
            n_det_ok += 1
    wall = time.time() - t0
    cov = dict(
        evaluations=done,
        distinct_nontrivial=len(digests_nt),
        rule=cfg["rule"],
        populations=dict(pops),
        outcomes=dict(outcomes),
        aborted_unrelated=dict(aborted),
        runs_per_hour=int(done / max(wall, 1e-9) * 3600),
        seeds=dict(seed=seed, scenarios=len(cases), first_index=0, last_index=len(cases) - 1),
        simulated_seconds=round(sim_s, 3),
        target_calls=tcalls,
        seam_calls=dict(seam_calls),
        fault_fired=dict(fired),
        probes=dict(probes),
        distinct_trajectories=len(trajs),
        distinct_controller_states=dict(count=len(ctrl), measure="(mesh exponent, search_count, search_success>0, searched, polled, evaluated, noise level) at loop end"),
        determinism_reruns=dict(sampled=len(resample), identical=n_det_ok),
        components=dict(real=["pybads", "gpyreg", "scipy", "numpy"], stub=["target", "constraint function", "clock"],
                        fault_shims=["GP.fit", "GP.update", "GP.predict (incumbent prediction)", "GP.predict (evolution-strategy population: partial/total NaN mean, NaN/negative variance)"]),
    )
    if extra_cov:
        cov.update(extra_cov)
    if post:
        post(rep, cases, recs, cov)
    return rep.finish(cov, COMMON_ASSUME + cfg.get("assume", []),
                      shrink_fn=lambda p, c, k, case: shrink_case(p, c, k, case, tier), samples=samples)
