"""One integer decides everything: named deterministic streams."""
import hashlib
import random


def stream(seed, label):
    h = hashlib.sha256(f"{seed}/{label}".encode()).digest()
    return random.Random(int.from_bytes(h[:16], "big"))


def subseed(seed, label, bits=31):
    h = hashlib.sha256(f"{seed}/{label}".encode()).digest()
    return int.from_bytes(h[:8], "big") % (1 << bits)
