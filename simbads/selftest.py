"""Self-tests. `python -m simbads.selftest determinism [n]`: every scenario is
executed twice in different children at different worker counts, plus in a
fresh interpreter under another PYTHONHASHSEED; event digests must agree."""
import json
import os
import subprocess
import sys
import tempfile

from . import env

env.ensure_hashseed()


def _scenarios(n, seed=777):
    from . import runlevel, gen
    props = ["C01", "C02", "C03", "C05", "C09", "C15", "C18", "C19"]
    out = []
    for i in range(n):
        p = props[i % len(props)]
        s = gen.make_scenario(seed, runlevel.CFG[p]["profile"], i)
        if i % 5 == 0:
            s["faults"] = [dict(seam="fit", k=2, len=2, kind="mid"), dict(seam="predict", k=3, kind="nan_mean")]
        out.append(s)
    return out


def digests(scns, workers):
    from . import pool, run
    res = pool.run_tasks(run.run_scenario, scns, timeout=600, workers=workers)
    return [(st, r["digest"] if st == "ok" else None) for st, r in res]


def main(argv):
    if argv and argv[0] == "--digests":
        env.import_pybads()
        from . import world
        world.install_seams()
        scns = json.load(open(argv[1]))
        print("DIGESTS " + json.dumps(digests(scns, int(argv[2]))))
        return 0
    n = int(argv[1]) if len(argv) > 1 else 20
    env.import_pybads()
    from . import world
    world.install_seams()
    scns = _scenarios(n)
    a = digests(scns, 16)
    b = digests(scns, 3)
    bad = [i for i, (x, y) in enumerate(zip(a, b)) if x != y or x[0] != "ok"]
    fresh_bad = []
    if len(argv) > 2 and argv[2] == "fresh":
        with tempfile.NamedTemporaryFile("w", suffix=".json", delete=False) as f:
            json.dump(scns, f)
        for hs in ("1", "12345"):
            e = dict(os.environ, PYTHONHASHSEED=hs)
            out = subprocess.run([sys.executable, "-m", "simbads.selftest", "--digests", f.name, "7"], env=e, cwd=env.VERIF_ROOT,
                                 capture_output=True, text=True, timeout=3600)
            line = [l for l in out.stdout.splitlines() if l.startswith("DIGESTS ")]
            if not line:
                print("fresh interpreter failed:", out.stderr[-800:])
                return 2
            c = [tuple(x) for x in json.loads(line[0][8:])]
            fresh_bad += [i for i, (x, y) in enumerate(zip(a, c)) if tuple(x) != tuple(y)]
        os.unlink(f.name)
    print(f"determinism: {n} scenarios, 16 vs 3 workers: {len(bad)} mismatches; fresh interpreters: {len(fresh_bad)} mismatches")
    if bad or fresh_bad:
        print("MISMATCH indices", bad[:10], fresh_bad[:10])
        return 2
    return 0


if __name__ == "__main__":
    sys.exit(main(sys.argv[1:]))
