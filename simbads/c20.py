"""C20: options - user settings win, unknown names rejected, no leaks between
instances, caller's objects untouched. Exploration over process histories:
sequences of construct / run / inspect operations on several instances with
different dimensions, including nested construction inside a target callback."""
import collections
import copy
import os
import time

import numpy as np

from . import env, harness, pool
from .prng import stream


# ---------------------------------------------------------------------------
# RefOptions: independent evaluation of the two option files
# ---------------------------------------------------------------------------

def _parse_ini(path):
    out = []
    for line in open(path):
        s = line.strip()
        if not s or s.startswith("#") or s.startswith("["):
            continue
        if "=" not in s:
            continue
        k, v = s.split("=", 1)
        out.append((k.strip(), v.strip()))
    return out


class _SelfProxy:
    def __init__(self, d):
        self._d = d

    def get(self, k, default=None):
        return self._d.get(k, default)

    def __getitem__(self, k):
        return self._d[k]


def option_files():
    base = os.path.join(env.PYBADS_ROOT, "pybads", "bads", "option_configs")
    return os.path.join(base, "basic_bads_options.ini"), os.path.join(base, "advanced_bads_options.ini")


def ref_options(D, user):
    """Defaults evaluated for dimension D with the user's values visible to dependent defaults."""
    basic, adv = option_files()
    d = {}
    names = []
    ns = {"np": np, "D": D}
    for k, v in _parse_ini(basic):
        names.append(k)
        d[k] = eval(v, dict(ns, self=_SelfProxy(d)))
    d.update(user)
    for k, v in _parse_ini(adv):
        names.append(k)
        if k in user:
            continue
        d[k] = eval(v, dict(ns, self=_SelfProxy(d)))
    return d, names


def all_names():
    basic, adv = option_files()
    return [k for k, _ in _parse_ini(basic)] + [k for k, _ in _parse_ini(adv)]


def veq(a, b):
    if callable(a) and callable(b):
        y = np.array([1.0, 2.0, 5.0, -3.0])
        try:
            return np.allclose(a(3.0, y), b(3.0, y))
        except Exception:
            return False
    if a is None or b is None:
        return a is None and b is None
    if isinstance(a, np.ndarray) or isinstance(b, np.ndarray):
        try:
            return np.asarray(a).shape == np.asarray(b).shape and bool(np.all(np.asarray(a) == np.asarray(b)))
        except Exception:
            return False
    if isinstance(a, (list, tuple)) and isinstance(b, (list, tuple)):
        return type(a) == type(b) and len(a) == len(b) and all(veq(x, y) for x, y in zip(a, b))
    if isinstance(a, dict) and isinstance(b, dict):
        return a.keys() == b.keys() and all(veq(a[k], b[k]) for k in a)
    if isinstance(a, float) and isinstance(b, float) and np.isnan(a) and np.isnan(b):
        return True
    try:
        return bool(a == b) and (isinstance(a, bool) == isinstance(b, bool))
    except Exception:
        return False


# ---------------------------------------------------------------------------
# value pools
# ---------------------------------------------------------------------------

# options that are safe to override for instances that will be *run*
SAFE = {
    "max_iter": lambda r, D: r.randrange(2, 9),
    "max_fun_evals": lambda r, D: r.randrange(12, 40),
    "nonlinear_scaling": lambda r, D: r.random() < 0.5,
    "complete_poll": lambda r, D: r.random() < 0.5,
    "accelerate_mesh": lambda r, D: r.random() < 0.5,
    "noise_final_samples": lambda r, D: r.randrange(0, 6),
    "random_seed": lambda r, D: r.randrange(0, 10**6),
    "tol_mesh": lambda r, D: r.choice([1e-3, 1e-4, 1e-6, 1e-7]),
    "tol_fun": lambda r, D: r.choice([1e-2, 1e-4, 5e-3]),
    "tol_stall_iters": lambda r, D: r.randrange(2, 9),
    "cache_size": lambda r, D: r.randrange(2, 600),
    "fun_eval_start": lambda r, D: r.randrange(1, 9),
    "n_search": lambda r, D: r.choice([16, 64, 512, 2**12]),
    "search_n_try": lambda r, D: r.randrange(1, 6),
    "tol_poi": lambda r, D: r.choice([1e-6, 1e-4, 0.0]),
    "skip_poll": lambda r, D: r.random() < 0.5,
    "skip_poll_after_search": lambda r, D: r.random() < 0.5,
    "accelerate_mesh_steps": lambda r, D: r.randrange(1, 6),
    "mesh_overflow_warning": lambda r, D: r.randrange(1, 9),
    "tol_improvement": lambda r, D: r.choice([0.5, 1, 2.0]),
    "forcing_exponent": lambda r, D: r.choice([1.0, 1.5, 2.0]),
    "incumbent_sigma_multiplier": lambda r, D: r.choice([0.05, 0.1, 0.3]),
    "search_scale_success": lambda r, D: r.choice([1.2, 2.0]),
    "search_scale_failure": lambda r, D: r.choice([0.5, 0.8]),
    "search_grid_number": lambda r, D: r.choice([8, 10, 12]),
    "buffer_ntrain": lambda r, D: r.choice([50, 100, 200]),
    "min_refit_time": lambda r, D: r.randrange(1, 12),
    "poll_training": lambda r, D: r.random() < 0.5,
    "gp_radius": lambda r, D: r.choice([2, 3, 4.5]),
    "hedge_gamma": lambda r, D: r.choice([0.05, 0.125, 0.25]),
    "hedge_beta": lambda r, D: r.choice([0.1, 1.0, 5.0]),
    "hedge_decay": lambda r, D: r.choice([0.5, 0.9]),
    "gp_mean_percentile": lambda r, D: r.choice([50, 90]),
    "es_beta": lambda r, D: r.choice([0.5, 1, 2]),
    "es_start": lambda r, D: r.choice([0.1, 0.25, 0.5]),
    "tol_noise": lambda r, D: r.choice([1e-12, 1e-8]),
    "gp_tol_opt": lambda r, D: r.choice([1e-4, 1e-5]),
    "gp_train_n_init": lambda r, D: r.choice([32, 128]),
    "gp_train_n_init_final": lambda r, D: r.choice([4, 8]),
}
# options unused by the algorithm: any value is fine
UNUSED = ["warp_every_iters", "tol_sd", "k_warmup", "tol_skl", "kl_gauss", "temperature", "bandwidth", "sgd_step_size",
          "ns_search", "min_fun_evals", "min_iter", "heavy_tail_search_frac", "mvn_search_frac", "box_search_frac",
          "acqhedge_decay", "active_search_bound", "tol_bound_x", "warp_cov_reg", "gp_length_prior_mean", "tol_stable_warmup",
          "n_basis", "search_factor_min", "rank_criterion", "diagnostics", "out_warp_thresh_base", "stable_gp_sampling"]


def gen_overrides(rng, D, for_run):
    o = {"display": "off"}
    names = list(SAFE.keys())
    k = rng.randrange(0, 9)
    for nm in rng.sample(names, k):
        o[nm] = SAFE[nm](rng, D)
    for nm in rng.sample(UNUSED, rng.randrange(0, 4)):
        o[nm] = rng.choice([0, 1, 7, 0.5, True, "x", None, [1, 2]])
    if rng.random() < 0.3:
        # tol_fun feeds dependent defaults (tol_noise, hedge_beta)
        o["tol_fun"] = rng.choice([1e-1, 1e-2, 1e-4, 5e-3, 1e-6])
    if "max_fun_evals" not in o and for_run:
        o["max_fun_evals"] = rng.randrange(12, 40)
    if rng.random() < 0.2:
        o["uncertainty_handling"] = rng.random() < 0.7
    return o


def gen_sequence(seed, i):
    rng = stream(seed, f"c20/{i}")
    n_inst = rng.randrange(1, 5)
    if rng.random() < 0.5:
        # instances sharing a dimension: leaks keyed on D (caches) need them
        pool_D = [rng.randrange(1, 7)] * 2 + [rng.randrange(1, 7)]
        insts = [dict(D=rng.choice(pool_D)) for _ in range(n_inst)]
    else:
        insts = [dict(D=rng.randrange(1, 7)) for _ in range(n_inst)]
    with_runs = rng.random() < 0.12
    ops = []
    constructed = set()
    for _ in range(rng.randrange(2, 9)):
        t = rng.random()
        j = rng.randrange(n_inst)
        if t < 0.5 or j not in constructed:
            spell = rng.choice(["2d", "2d", "1d", "list"])
            ops.append(dict(op="construct", i=j, D=insts[j]["D"], options=gen_overrides(rng, insts[j]["D"], with_runs), spell=spell,
                            no_options=rng.random() < 0.08, x0_on_bound=rng.random() < 0.3,
                            geom=rng.choice(["sym", "sym", "poswide", "mixed"])))
            constructed.add(j)
        elif t < 0.62:
            bad = rng.choice(["max_fun_eval", "MaxIter", "tolmesh", "random-seed", "display ", "nsearch", "tol_mesh_", "useroptionz"])
            ops.append(dict(op="construct_bad", D=rng.randrange(1, 5), bad=bad, options=gen_overrides(rng, 2, False)))
        elif t < 0.75 and with_runs:
            ops.append(dict(op="run", i=j, nested=(dict(D=rng.randrange(1, 5), options=gen_overrides(rng, 3, True), run=rng.random() < 0.5)
                                                  if rng.random() < 0.4 else None)))
        else:
            ops.append(dict(op="inspect", i=j))
    return dict(index=i, insts=insts, ops=ops, with_runs=with_runs)


# ---------------------------------------------------------------------------
# executor
# ---------------------------------------------------------------------------

def snapshot_options(o):
    return {k: copy.deepcopy(o[k]) if not callable(o[k]) else o[k] for k in dict.keys(o)}


def diff_options(a, b):
    out = []
    for k in sorted(set(a) | set(b), key=str):
        if k not in a or k not in b or not veq(a[k], b[k]):
            out.append(k)
    return out


def execute(seq):
    from pybads import BADS
    problems = []
    live = {}        # i -> dict(b, snap, user, D, ran)
    names = all_names()

    def P(cls, msg, opi):
        problems.append((cls, msg, opi))

    def check_others(except_i, opi, what):
        for i, e in live.items():
            if i == except_i:
                continue
            cur = snapshot_options(e["b"].options)
            d = diff_options(e["snap"], cur)
            if d:
                P("leak-between-instances", f"{what} changed options {d[:5]} of another instance (D={e['D']})", opi)
                e["snap"] = cur

    for opi, op in enumerate(seq["ops"]):
        k = op["op"]
        if k in ("construct", "construct_bad"):
            D = op["D"]
            user = dict(op["options"])
            if k == "construct_bad":
                user[op["bad"]] = 1
            geom = op.get("geom", "sym")
            if geom == "sym":
                x0 = np.linspace(-0.5, 0.5, D).reshape(1, D)
                lb, ub = -5.0 * np.ones((1, D)), 5.0 * np.ones((1, D))
                plb, pub = -2.0 * np.ones((1, D)), 2.0 * np.ones((1, D))
            else:
                # positive bounds spanning decades: the log transform is applied (poswide: all coordinates, mixed: every other one)
                logc = np.array([(geom == "poswide") or (j % 2 == 0) for j in range(D)])
                lb = np.where(logc, 0.01, -5.0).reshape(1, D).astype(float)
                ub = np.where(logc, 1000.0, 5.0).reshape(1, D).astype(float)
                plb = np.where(logc, 0.1, -2.0).reshape(1, D).astype(float)
                pub = np.where(logc, 100.0, 2.0).reshape(1, D).astype(float)
                x0 = np.where(logc, 3.0, 0.25).reshape(1, D).astype(float)
            if op.get("x0_on_bound"):
                x0[0, 0] = lb[0, 0]    # on the hard bound: the constructor moves it inside (a copy, never the caller's array)
            sp = op.get("spell", "2d")
            if sp == "1d":
                x0, lb, ub, plb, pub = (a.reshape(-1) for a in (x0, lb, ub, plb, pub))
            elif sp == "list":
                x0, lb, ub, plb, pub = (a.reshape(-1).tolist() for a in (x0, lb, ub, plb, pub))
            caller = (copy.deepcopy(user), [copy.deepcopy(a) for a in (x0, lb, ub, plb, pub)])
            state = {"calls": 0}

            def fun(x, _s=state):
                _s["calls"] += 1
                return float(np.sum(np.asarray(x) ** 2))
            pass_opts = None if op.get("no_options") else user
            try:
                b = BADS(fun, x0, lb, ub, plb, pub, options=pass_opts)
                err = None
            except ValueError as e:
                b, err = None, e
            except Exception as e:   # noqa
                P("construct-raised", f"constructor raised {type(e).__name__}: {e}", opi)
                continue
            # caller's objects untouched
            if not veq(user, caller[0]):
                P("caller-options-mutated", "constructor modified the caller's options dict", opi)
            for a, a0, nm in zip((x0, lb, ub, plb, pub), caller[1], ("x0", "lb", "ub", "plb", "pub")):
                if not veq(a, a0):
                    P("caller-array-mutated", f"constructor modified the caller's {nm}", opi)
            if k == "construct_bad":
                if err is None:
                    P("unknown-name-accepted", f"unknown option name {op['bad']!r} was accepted", opi)
                check_others(None, opi, "a rejected construction")
                continue
            if err is not None:
                P("valid-options-rejected", f"valid options rejected: {err}", opi)
                continue
            if state["calls"]:
                P("target-called-in-constructor", "target called during construction", opi)
            eff_user = {} if op.get("no_options") else user
            ref, _ = ref_options(D, eff_user)
            got = b.options
            for nm in names:
                if nm not in got:
                    P("option-missing", f"option {nm} missing after construction", opi)
                    continue
                if nm in eff_user:
                    if not (got[nm] is eff_user[nm] or veq(got[nm], eff_user[nm])):
                        P("user-option-overwritten", f"user option {nm}={eff_user[nm]!r} became {got[nm]!r}", opi)
                else:
                    if nm in ("stobads", "specify_target_noise", "uncertainty_handling") and got[nm] is False and ref[nm] in (None, False):
                        continue   # normalised None -> False by the constructor
                    if not veq(got[nm], ref[nm]):
                        P("default-wrong", f"option {nm} is {got[nm]!r}, default for D={D} is {ref[nm]!r}", opi)
            live[op["i"]] = dict(b=b, snap=snapshot_options(b.options), user=user, D=D, ran=False, state=state,
                                 caller_opts=user, caller_opts0=copy.deepcopy(user))
            check_others(op["i"], opi, f"constructing an instance with D={D}")
        elif k == "run":
            e = live.get(op["i"])
            if e is None or e["ran"]:
                continue
            nested = op.get("nested")
            if nested:
                done = {"n": 0}
                inner_state = e["state"]

                def fun2(x, _e=e, _n=nested, _d=done):
                    _e["state"]["calls"] += 1
                    if _d["n"] == 0 and _e["state"]["calls"] == 4:
                        _d["n"] = 1
                        Dn = _n["D"]
                        bn = BADS(lambda z: float(np.sum(np.asarray(z) ** 2)) + 1.0, np.zeros((1, Dn)), -3 * np.ones((1, Dn)),
                                  3 * np.ones((1, Dn)), options=dict(_n["options"]))
                        if _n.get("run"):
                            bn.optimize()
                    return float(np.sum(np.asarray(x) ** 2))
                e["b"].function_logger.fun = fun2
            try:
                e["b"].optimize()
            except Exception as ex:   # noqa
                P("run-raised", f"optimize() raised {type(ex).__name__}: {ex}", opi)
            e["ran"] = True
            e["snap"] = snapshot_options(e["b"].options)     # own options may be adjusted by its own run
            if not veq(e["caller_opts"], e["caller_opts0"]):
                P("caller-options-mutated", "optimize() modified the caller's options dict", opi)
            check_others(op["i"], opi, "running an instance" + (" (with nested construction)" if nested else ""))
        elif k == "inspect":
            e = live.get(op["i"])
            if e is None:
                continue
            cur = snapshot_options(e["b"].options)
            d = diff_options(e["snap"], cur)
            if d:
                P("leak-between-instances", f"options {d[:5]} of an idle instance changed", opi)
    return problems


def run_batch(arg):
    seed, lo, hi = arg
    out = dict(n=0, ops=0, problems=[], shapes=set(), overridden=set(), samples=[], runs=0, nested=0, bad=0)
    for i in range(lo, hi):
        seq = gen_sequence(seed, i)
        # every sequence starts from a pristine process (a leak carried over from an earlier
        # sequence would make the replay file of this one not self-contained)
        probs = pool.run_isolated(execute, seq)
        out["n"] += 1
        out["ops"] += len(seq["ops"])
        out["shapes"].add(tuple(o["op"] + (":nested" if o.get("nested") else "") for o in seq["ops"]))
        for o in seq["ops"]:
            out["overridden"].update(o.get("options", {}).keys())
            out["runs"] += o["op"] == "run"
            out["nested"] += bool(o.get("nested"))
            out["bad"] += o["op"] == "construct_bad"
        if probs and len(out["problems"]) < 10:
            out["problems"].append((i, seq, probs))
        if not out["samples"] and len(seq["ops"]) <= 3:
            out["samples"].append(seq)
    out["shapes"] = sorted(map(str, out["shapes"]))
    out["overridden"] = sorted(out["overridden"])
    return out


def shrink(seq, cls):
    def bad(s):
        try:
            return any(p[0] == cls for p in pool.run_isolated(execute, s))
        except Exception:
            return False
    cur = copy.deepcopy(seq)
    runs = 0
    changed = True
    while changed and runs < 120:
        changed = False
        for i in range(len(cur["ops"])):
            cand = copy.deepcopy(cur)
            del cand["ops"][i]
            runs += 1
            if cand["ops"] and bad(cand):
                cur = cand
                changed = True
                break
        if changed:
            continue
        for i, op in enumerate(cur["ops"]):
            for k in list(op.get("options", {}).keys()):
                if k == "display":
                    continue
                cand = copy.deepcopy(cur)
                del cand["ops"][i]["options"][k]
                runs += 1
                if bad(cand):
                    cur = cand
                    changed = True
                    break
            if changed:
                break
    return cur, dict(runs=runs, ops_before=len(seq["ops"]), ops_after=len(cur["ops"]))


def replay(prop, cls, case):
    probs = pool.run_isolated(execute, case)
    return any(p[0] == cls for p in probs), dict(problems=probs[:6])


def main(tier):
    seed = harness.default_seed(tier)
    rep = harness.Report("C20", tier, seed)
    n = 2000 if tier == "quick" else 100000
    per = 50 if tier == "quick" else 500
    tasks = [(seed, lo, min(lo + per, n)) for lo in range(0, n, per)]
    t0 = time.time()
    outs = harness.run_batch(run_batch, tasks, timeout=1800, report=rep)
    shapes, overridden = set(), set()
    tot = collections.Counter()
    found = {}
    samples = []
    for o in outs:
        if o is None:
            continue
        for k in ("n", "ops", "runs", "nested", "bad"):
            tot[k] += o[k]
        shapes.update(o["shapes"])
        overridden.update(o["overridden"])
        if len(samples) < 2:
            samples.extend(o["samples"])
        for i, seq, probs in o["problems"]:
            for cls, msg, opi in probs:
                if cls not in found or len(seq["ops"]) < len(found[cls][0]["ops"]):
                    found[cls] = (seq, f"sequence #{i}, operation {opi}: {msg}")
    for cls, (seq, msg) in found.items():
        small, info = shrink(seq, cls)
        rep.add_violation(cls, msg, small, "c20seq")
    wall = time.time() - t0
    names = all_names()
    cov = dict(
        evaluations=tot["n"], distinct_nontrivial=len(shapes),
        rule="seeded op sequences (2-8 ops: construct with a random subset of overrides / construct with a misspelt name / run / inspect, 1-4 instances with D 1-6, nested construction+run inside a target callback); distinct = distinct op-kind sequences; after every op: user options exact, every other option equal to an independent evaluation of the two option files for the instance's own D, other instances' options unchanged, caller's dict and arrays unchanged",
        sequences=tot["n"], operations=tot["ops"], runs=tot["runs"], nested_constructions=tot["nested"], misspelt_constructions=tot["bad"],
        option_names_in_files=len(names), option_names_overridden=len(overridden & set(names)),
        option_names_checked_as_default=len(names),
        sequences_per_hour=int(tot["n"] / max(wall, 1e-9) * 3600),
        fault_fired={"process-history op (F7)": tot["ops"], "nested construction inside target callback": tot["nested"]},
        observations=["the display level is applied to the shared 'BADS' logger, so constructing a second instance changes what the first prints; the property's observation points are the options objects, so this is not an alarm"],
        components=dict(real=["pybads.BADS constructor/optimize", "pybads.bads.options.Options", "option .ini files"], stub=["target"], fault_shims=[]),
    )
    return rep.finish(cov, ["RefOptions evaluates the .ini files independently (own parser, fresh namespace with np, D and a self.get proxy)",
                            "documented run-time adjustments of an instance's own options inside its own optimize() are not compared",
                            "constructor normalisation None -> False of stobads / specify_target_noise / uncertainty_handling is accepted"],
                      samples=samples)
