"""Execute one scenario against the real pybads under the simulated world and
judge it: online monitors (world.py) plus the history oracles below."""
import copy
import traceback

import numpy as np

from . import world as W
from .world import World, SimLimit, HarnessError


def _arr(v, D):
    if v is None:
        return None
    return np.asarray(v, dtype=float).reshape(1, D)


def build_args(scn, w):
    D = int(scn["D"])
    kw = {}
    x0 = _arr(scn.get("x0"), D)
    lb, ub = _arr(scn.get("lb"), D), _arr(scn.get("ub"), D)
    plb, pub = _arr(scn.get("plb"), D), _arr(scn.get("pub"), D)
    opts = dict(scn.get("options", {}))
    opts.setdefault("display", "off")
    # option values that are not JSON-able are spelled as tagged lists
    for k, v in list(opts.items()):
        if isinstance(v, dict) and "__np__" in v:
            opts[k] = np.array(v["__np__"])
    return dict(fun=w.make_target(), x0=x0, lower_bounds=lb, upper_bounds=ub,
                plausible_lower_bounds=plb, plausible_upper_bounds=pub,
                non_box_cons=w.make_cons(), options=opts)


def exc_class(e):
    """(type name, innermost pybads frame 'module:function') of an exception."""
    tb = traceback.extract_tb(e.__traceback__)
    frame = None
    line = None
    for fr in tb:
        fn = fr.filename.replace("\\", "/")
        if "/pybads/" in fn and "/simbads/" not in fn:
            frame = fn.split("/pybads/", 1)[1].rsplit(".", 1)[0].replace("/", ".") + ":" + fr.name
            line = fr.lineno
    inner = tb[-1] if tb else None
    innermost = None
    if inner is not None:
        innermost = inner.filename.rsplit("/", 1)[-1] + ":" + inner.name
    return type(e).__name__, frame, line, innermost


def install_instance_wrappers(w, b):
    """Per-instance phase delimiters (C03, C13, C14, C18, phase labels)."""
    orig_init, orig_search, orig_poll = b._init_mesh_, b._search_step_, b._poll_step_

    def _init_mesh_():
        w.phase, w.phase_calls = "init", 0
        w.ev("init_begin")
        try:
            return orig_init()
        finally:
            w.phase = None
            w.n_init = w.n_calls
            w.ev("init_end", w.n_calls)
            if w.budget is not None and w.budget >= w.n_init:
                pass
            else:
                w.probe("budget_below_design")

    def _search_step_(gp):
        w.phase, w.phase_calls = "search", 0
        w.n_searches += 1
        fl = b.function_logger
        fval0 = b.fval
        w.ev("search_begin", w.n_searches)
        try:
            res = orig_search(gp)
        finally:
            w.phase = None
        made = w.phase_calls
        if made == 0:
            w.probe("search_empty_set")
        stats = b.optim_state.get("search_stats", {}).get("success", [])
        sym = {1.0: "s", 0.5: "i", 0.0: "f"}.get(stats[-1] if stats else None, "?")
        w.outcomes.append("s:" + sym + str(made))
        w.ev("search_end", w.n_searches, made, sym)
        return res

    def _poll_step_(gp):
        w.phase, w.phase_calls = "poll", 0
        w.n_polls += 1
        k0 = b.mesh_size_integer
        fval0, fsd0 = b.fval, b.fsd
        # the documented forcing function, recomputed from the options and the mesh (not read back from the optimiser):
        # tol_improvement * mesh_size**forcing_exponent, floored at tol_fun unless sloppy_improvement is off
        suff = b.options["tol_improvement"] * (b.mesh_size ** (b.options["forcing_exponent"]))
        if b.options["sloppy_improvement"]:
            suff = np.maximum(suff, b.options["tol_fun"])
        suff = float(np.asarray(suff).reshape(-1)[0])
        it = b.optim_state["iter"]
        w.poll_ctx = {"B": None, "used": set(), "n_polled": 0}
        w.ev("poll_begin", w.n_polls, int(k0), fval0)
        # C13: mesh must not have changed since the end of the previous poll
        if w.k_after_last_poll is not None and k0 != w.k_after_last_poll \
                and not b.options["search_mesh_expand"] > 0:
            w.violate("C13", "mesh-changed-outside-poll",
                      f"mesh exponent changed from {w.k_after_last_poll} to {k0} between two polls")
        if w.max_iter is not None and w.n_polls > w.max_iter:
            w.violate("C03", "max-iter-exceeded", f"poll step {w.n_polls} exceeds max_iter={w.max_iter}")
        try:
            res = orig_poll(gp)
        finally:
            w.phase = None
            ctx, w.poll_ctx = w.poll_ctx, None
        made = w.phase_calls
        k1 = b.mesh_size_integer
        w.k_after_last_poll = k1
        try:
            _check_mesh_rule(w, b, k0, k1, fval0, fsd0, suff, it, made)
        except HarnessError:
            raise
        except Exception as e:
            raise HarnessError("mesh monitor failed: " + repr(e) + traceback.format_exc()) from e
        if made == 0:
            w.probe("poll_no_eval")
        if ctx.get("B") is None:
            w.probe("poll_no_basis")
        w.ev("poll_end", w.n_polls, made, int(k1))
        return res

    b._init_mesh_ = _init_mesh_
    b._search_step_ = _search_step_
    b._poll_step_ = _poll_step_


def _improvement(f_base, f_new, s_base, s_new):
    # the documented improvement at the default quantile 0.5: f_base - f_new
    # (replicating the float expression so that NaN uncertainty propagates the same way)
    mu = f_base - f_new
    sigma = np.sqrt(np.float64(s_base) ** 2 + np.float64(s_new) ** 2)
    return sigma * (-0.0) + mu


def _check_mesh_rule(w, b, k0, k1, fval0, fsd0, suff, it, made):
    opts = b.options
    cap = opts["max_poll_grid_number"]
    if opts["stobads"] or opts["improvement_quantile"] != 0.5:
        return
    fval1, fsd1 = b.fval, b.fsd
    impr = _improvement(fval0, fval1, fsd0, fsd1)
    impr = float(np.asarray(impr).reshape(-1)[0])
    success = impr > suff
    w.mesh_trace.append((int(k0), int(k1), bool(success)))
    if success:
        exp = min(k0 + 1, cap)
        w.probe("poll_success")
        if k0 == cap:
            w.probe("mesh_overflow")
        w.outcomes.append("p:S%d" % made)
    else:
        exp = k0 - 1
        accel = False
        if opts["accelerate_mesh"] and it > opts["accelerate_mesh_steps"]:
            j = it - opts["accelerate_mesh_steps"]
            fb = b.iteration_history.get("fval")[j]
            sb = b.iteration_history.get("fsd")[j]
            hist = _improvement(fb, fval1, sb, fsd1)
            hist = float(np.asarray(hist).reshape(-1)[0])
            if hist < opts["tol_fun"]:
                exp -= 1
                accel = True
                w.probe("mesh_accelerated")
        w.outcomes.append("p:%s%d" % ("A" if accel else "F", made))
    if k1 != exp:
        w.violate("C13", "mesh-rule",
                  f"mesh exponent went {k0} -> {k1}, rule says {exp} (poll {'succeeded' if success else 'failed'})",
                  improvement=impr, sufficient=suff, iteration=int(it), evals=made)
    if k1 > cap:
        w.violate("C13", "mesh-above-cap", f"mesh exponent {k1} above cap {cap}")
    ms = b.mesh_size
    if ms != 2.0 ** float(k1) and opts["poll_mesh_multiplier"] == 2.0:
        w.violate("C13", "mesh-size-not-power", f"mesh size {ms} is not 2**{k1}")


# ---------------------------------------------------------------------------

def run_scenario(scn, keep_world=False):
    """Run one scenario in this process. Returns a JSON-able record."""
    W.install_seams()
    import pybads
    from pybads import BADS
    if scn.get("pre"):
        # process history before the monitored run (other optimisations etc.), outside any world
        from . import historyops
        historyops.execute(scn["pre"])
    w = World(scn)
    rec = {"outcome": None}
    W.set_world(w)
    try:
        _run(scn, w, rec, BADS)
    finally:
        W.set_world(None)
    rec.update(
        violations=w.violations,
        digest=w.digest(),
        sem_digest=w.sem_digest(),
        n_events=w.n_events,
        n_calls=w.n_calls,
        n_valid=w.n_valid,
        n_polls=w.n_polls,
        n_searches=w.n_searches,
        loop_iters=w.loop_iters,
        max_nonprog=w.max_nonprog,
        fit_calls=w.fit_calls,
        lgf_calls=w.lgf_calls,
        acq_calls=w.acq_calls,
        es_calls=w.es_calls,
        filter_calls=w.filter_calls,
        cons_rows=w.cons_rows,
        probes=w.probes,
        fault_fired=w.fault_fired,
        sim_seconds=w.clock.total_sim,
        clock_reads=w.clock.reads,
        n_ctrl_states=len(w.ctrl_states),
        ctrl_states=sorted(w.ctrl_states)[:400],
        traj=hash_outcomes(w.outcomes),
        tail=w.summary_tail(),
        n_init=w.n_init,
        phases=[c["phase"] for c in w.calls],
        lim_reason=w.lim_reason,
        result_keys=getattr(w, "result_keys", None),
    )
    if scn.get("want_calls"):
        rec["call_log"] = [dict(k=c["k"], x=c["x"].tolist(), y=c["y"], sd=c["sd"], phase=c["phase"],
                                valid=c["valid"]) for c in w.calls]
    if w.record_events:
        rec["events"] = [list(e) for e in w.events]
    if keep_world:
        rec["_world"] = w
    return rec


def hash_outcomes(outcomes):
    import hashlib
    return hashlib.sha256("|".join(outcomes).encode()).hexdigest()[:16]


def _run(scn, w, rec, BADS):
    D = w.D
    args = build_args(scn, w)
    # ---------------- construction
    w.phase = "ctor"
    if scn.get("reuse_arrays"):
        # a multi-start loop: an earlier instance was built from the very same caller-owned arrays
        try:
            first = BADS(**args)
            if scn["reuse_arrays"] == "run":
                W.set_world(None)
                try:
                    BADS(lambda x: float(np.sum(np.asarray(x) ** 2)), args["x0"], args["lower_bounds"], args["upper_bounds"],
                         args["plausible_lower_bounds"], args["plausible_upper_bounds"],
                         options=dict(display="off", max_fun_evals=12, random_seed=1)).optimize()
                finally:
                    W.set_world(w)
            del first
        except ValueError:
            pass
        w.ev("reuse_arrays")
    try:
        b = BADS(**args)
    except ValueError as e:
        w.phase = None
        rec["outcome"] = "ctor_valueerror"
        rec["exc"] = dict(zip(("type", "frame", "line", "innermost"), exc_class(e)))
        rec["exc"]["msg"] = str(e)[:300]
        w.ev("ctor_error", "ValueError")
        _check_ctor_reject(scn, w, e)
        return
    except SimLimit as e:
        rec["outcome"] = "simlimit"
        return
    except HarnessError:
        raise
    except Exception as e:
        w.phase = None
        rec["outcome"] = "ctor_crash"
        rec["exc"] = dict(zip(("type", "frame", "line", "innermost"), exc_class(e)))
        rec["exc"]["msg"] = str(e)[:300]
        rec["exc"]["tb"] = traceback.format_exc()[-1500:]
        w.ev("ctor_error", type(e).__name__)
        return
    w.phase = None
    w.b = b
    if w.n_calls != 0:
        w.violate("C02", "target-called-in-constructor", "target was called during construction")
    _check_ctor_accept(scn, w, b)
    w.budget = int(b.options["max_fun_evals"])
    w.max_iter = b.options["max_iter"]
    w.call_cap = 3 * w.budget + 100
    n_try = float(b.options["search_n_try"])
    cap = float(b.options["max_poll_grid_number"])
    k_tol = float(np.log2(b.optim_state["tol_mesh"]))
    w.nonprog_bound = int((cap - k_tol + 3) * (n_try + 3)) if np.isfinite(k_tol) else None
    w.loop_cap = int(scn.get("loop_cap", 20000))
    w.opts0 = {k: copy.deepcopy(b.options[k]) for k in
               ("max_fun_evals", "max_iter", "noise_final_samples", "tol_mesh", "tol_fun",
                "tol_stall_iters", "uncertainty_handling", "specify_target_noise", "tol_noise",
                "fun_eval_start", "random_seed")}
    install_instance_wrappers(w, b)
    w.ev("constructed", b.x0, b.u)
    w.sem("x0", np.asarray(b.x0, float))
    if scn.get("between"):
        # process-history operations between construction and run (C07): executed
        # outside the world so that their own activity is not monitored
        from . import historyops
        W.set_world(None)
        try:
            historyops.execute(scn["between"])
        finally:
            W.set_world(w)
    # ---------------- optimisation
    try:
        res = b.optimize()
    except SimLimit as e:
        rec["outcome"] = "simlimit"
        rec["limit"] = str(e)
        w.ev("simlimit", str(e))
        return
    except HarnessError:
        raise
    except BaseException as e:
        if isinstance(e, (KeyboardInterrupt, SystemExit)):
            raise
        rec["outcome"] = "exception"
        rec["exc"] = dict(zip(("type", "frame", "line", "innermost"), exc_class(e)))
        rec["exc"]["msg"] = str(e)[:300]
        rec["exc"]["tb"] = traceback.format_exc()[-2500:]
        rec["exc"]["is_injected"] = bool(w.calls and not w.calls[-1]["valid"])
        w.ev("exception", type(e).__name__, rec["exc"]["frame"])
        w.sem("exception", type(e).__name__)
        _after_exception(scn, w, b, e, rec)
        return
    rec["outcome"] = "completed"
    try:
        _after_completed(scn, w, b, res, rec)
    except HarnessError:
        raise
    except Exception as e:
        raise HarnessError("history oracle failed: " + repr(e) + "\n" + traceback.format_exc()) from e
    if scn.get("second_optimize"):
        # history op: optimize() called again on the same object (continuing from the returned point). Unmonitored -
        # the seams go passive and the per-instance wrappers are removed - only an internal error counts (C09).
        for name in ("_init_mesh_", "_search_step_", "_poll_step_"):
            b.__dict__.pop(name, None)
        w.passive = True
        W.set_world(None)
        try:
            res2 = b.optimize()
            w.probe("second_optimize_completed")
            if not isinstance(res2, dict):
                w.violate("C09", "second-optimize-no-result", "a second optimize() on the same object did not return an OptimizeResult")
        except SimLimit:
            w.probe("second_optimize_capped")
        except Exception as e:
            fr = exc_class(e)
            w.violate("C09", f"crash-second-optimize:{type(e).__name__}@{fr[1]}", "a second optimize() on the same object failed with an internal error: " + str(e)[:200],
                      line=fr[2])
        finally:
            W.set_world(w)


# ---------------------------------------------------------------------------
# constructor oracles (C02)
# ---------------------------------------------------------------------------

def _check_ctor_reject(scn, w, e):
    if w.n_calls != 0:
        w.violate("C02", "target-called-before-reject", "constructor rejected the problem after calling the target")


def _check_ctor_accept(scn, w, b):
    if w.violation_fn is not None:
        # whatever the starting point is (supplied, moved inside the bounds, or drawn at random because it
        # was omitted): an accepted instance must not start from an infeasible point
        x0b = np.asarray(b.x0, dtype=float).reshape(-1)
        if np.all(np.isfinite(x0b)) and w.violation_fn(x0b) > 0:
            w.violate("C02", "infeasible-x0-accepted",
                      "constructor accepted a starting point that violates the non-box constraint",
                      x0=x0b, supplied=scn.get("x0") is not None, viol=w.violation_fn(x0b))
    x0 = scn.get("x0")
    if w.violation_fn is not None and x0 is not None and scn.get("x0_class") == "infeasible":
        w.violate("C02", "infeasible-x0-accepted",
                  "constructor accepted a starting point that violates the non-box constraint", x0=np.asarray(x0))


# ---------------------------------------------------------------------------
# exception path (C10 is judged by its own check from the record)
# ---------------------------------------------------------------------------

def _after_exception(scn, w, b, e, rec):
    fl = b.function_logger
    rec["post"] = dict(func_count=int(fl.func_count), Xn=int(fl.Xn),
                       n_evals_sum=float(np.sum(fl.n_evals[: fl.Xn + 1])) if fl.Xn >= 0 else 0.0,
                       log_finite=bool(np.all(np.isfinite(fl.Y[: fl.Xn + 1])) and np.all(np.isreal(fl.Y[: fl.Xn + 1]))),
                       sd_ok=bool((not fl.noise_flag) or fl.uncertainty_handling_level < 2 or
                                  np.all(np.isfinite(fl.S[: fl.Xn + 1]) & (fl.S[: fl.Xn + 1] > 0))),
                       exc_same_object=None)
    rec["post"]["exc_type"] = type(e).__name__


# ---------------------------------------------------------------------------
# history oracles after a completed run
# ---------------------------------------------------------------------------

def _after_completed(scn, w, b, res, rec):
    D = w.D
    fl = b.function_logger
    valid = [c for c in w.calls if c["valid"]]
    level = int(b.optim_state["uncertainty_handling_level"])
    rec["level"] = level
    rec["result"] = dict(
        x=np.asarray(res["x"], float).reshape(-1).tolist(), fval=_f(res["fval"]), fsd=_f(res["fsd"]),
        func_count=int(res["func_count"]), iterations=int(res["iterations"]), message=res["message"],
        mesh_size=_f(res["mesh_size"]), target_type=res["target_type"], problem_type=res["problem_type"],
        random_seed=res["random_seed"],
        yval_vec=None if res["yval_vec"] is None else np.asarray(res["yval_vec"], float).reshape(-1).tolist(),
        ysd_vec=None if res["ysd_vec"] is None else np.asarray(res["ysd_vec"], float).reshape(-1).tolist(),
    )
    w.ev("result", np.asarray(res["x"], float), _f(res["fval"]), _f(res["fsd"]), int(res["func_count"]),
         res["message"])
    w.sem("result", np.asarray(res["x"], float), _f(res["fval"]), _f(res["fsd"]), int(res["func_count"]), res["message"])
    _c01_hist(w, b, res)
    _c02_result(w, b, res)
    _c03_final(w, b, res, level)
    if level == 0 and w.noise_mode == "none":
        _c04(w, b, res, valid)
    if level > 0:
        _c05(w, b, res, valid)
    _c05_detection(w, b, res, valid)
    _c12_run(w, b, valid)
    _c13_hist(w, b, res)
    _c19(w, b, res, valid, level, scn)
    rec["n_logged"] = int(fl.Xn + 1)
    rec["gap"] = None
    if "fstar" in scn:
        xf = np.asarray(res["x"], float).reshape(-1)
        rec["gap"] = float(w.landscape(xf) - scn["fstar"])
        best = np.inf
        first = None
        for c in valid:
            v = c["ytrue"] - scn["fstar"]
            if v < best:
                best = v
            if first is None and best <= scn.get("gap_tol", 1e-2):
                first = c["k"]
        rec["evals_to_tol"] = first
        rec["f_first"] = float(valid[0]["ytrue"]) if valid else None
        rec["f_ret_true"] = float(w.landscape(xf))


def _eq(a, b):
    if a is None or b is None:
        return a is None and b is None
    if isinstance(a, str):
        return a == b
    return np.array_equal(np.asarray(a), np.asarray(b))


def _f(v):
    try:
        return float(np.asarray(v).reshape(-1)[0])
    except Exception:
        return None


def _c01_hist(w, b, res):
    x = np.asarray(res["x"], float).reshape(-1)
    if not (np.all(x >= w.lb) and np.all(x <= w.ub)):
        w.violate("C01", "result-outside-box", "returned x is outside the hard bounds", x=x)
    fl = b.function_logger
    n = fl.Xn + 1
    if n <= 0:
        return
    X, Xo = fl.X[:n], fl.X_orig[:n]
    lbt, ubt = b.lower_bounds, b.upper_bounds
    if not (np.all(X >= lbt) and np.all(X <= ubt)):
        w.violate("C01", "log-outside-transformed-box", "a logged internal point is outside the transformed box")
    back = b.var_transf.inverse_transf(X)
    if not np.allclose(back, Xo, rtol=1e-12, atol=0):
        w.violate("C01", "log-roundtrip", "a logged internal point does not map back to its logged original-space point")
    # X_orig rows must be a subsequence of the points the target received
    it = iter([c["x"] for c in w.calls if c["valid"]])
    for i in range(n):
        row = Xo[i]
        for cx in it:
            if np.array_equal(cx, row):
                break
        else:
            w.violate("C01", "log-orig-not-called", "a logged original-space point is not a point the target received (in order)", i=i, x=row)
            break


def _c02_result(w, b, res):
    if w.violation_fn is None:
        return
    x = np.asarray(res["x"], float).reshape(-1)
    if w.violation_fn(x) > 0:
        w.violate("C02", "result-infeasible", "returned x violates the non-box constraint", x=x)


def _c03_final(w, b, res, level):
    fl = b.function_logger
    if not (res["func_count"] == w.n_calls == fl.func_count):
        w.violate("C03", "func-count", f"func_count reported {res['func_count']}, logger {fl.func_count}, true calls {w.n_calls}")
    msg = res["message"]
    if not isinstance(msg, str) or not msg.strip():
        w.violate("C03", "empty-message", "termination message is empty")
        return
    its = int(res["iterations"])
    calls_main = w.calls_at_loop_end if w.calls_at_loop_end is not None else w.n_calls
    if "max_fun_evals" in msg:
        if not calls_main >= b.options["max_fun_evals"]:
            w.violate("C03", "message-budget-false", "message names the evaluation budget but it was not reached",
                      calls=calls_main, budget=int(b.options["max_fun_evals"]))
    elif "max_iter" in msg:
        if not its >= b.options["max_iter"] - 1:
            w.violate("C03", "message-iter-false", "message names max_iter but it was not reached", its=its)
    elif "tol_mesh" in msg:
        if not b.optim_state["mesh_size"] < b.optim_state["tol_mesh"]:
            w.violate("C03", "message-mesh-false", "message names tol_mesh but the mesh is not below it",
                      mesh=float(b.optim_state["mesh_size"]))
    elif "tol_fun" in msg:
        nst = b.options["tol_stall_iters"]
        if not its > nst - 1:
            w.violate("C03", "message-stall-window", "message names stalling but fewer than tol_stall_iters iterations ran", its=its)
        elif level == 0:
            fv = b.iteration_history.get("fval")
            base = float(fv[its - nst])
            last = float(fv[its])
            if not (base - last) < b.options["tol_fun"]:
                w.violate("C03", "message-stall-false", "message names stalling but the recorded improvement is not below tol_fun",
                          base=base, last=last)
    else:
        w.violate("C03", "message-unknown", "termination message names no known stopping condition", msg=msg)
    if w.max_iter is not None and w.n_polls > w.max_iter:
        w.violate("C03", "max-iter-exceeded", f"{w.n_polls} poll steps exceed max_iter={w.max_iter}")


def _c04(w, b, res, valid):
    opts = b.options
    if not opts["sloppy_improvement"] or opts["stobads"] or opts["improvement_quantile"] != 0.5:
        return
    x = np.asarray(res["x"], float).reshape(-1)
    fval = res["fval"]
    at = [c for c in valid if np.array_equal(c["x"], x)]
    if not at:
        w.violate("C04", "x-not-evaluated", "returned x is not a point at which the target was called", x=x)
    else:
        if not any(c["y"] == fval for c in at):
            w.violate("C04", "fval-not-observed", "returned fval is not the value the target returned at x",
                      fval=_f(fval), y=at[0]["y"])
    ymin = min(c["y"] for c in valid)
    if _f(fval) is None or ymin < _f(fval):
        w.violate("C04", "better-point-discarded", "an evaluated point has a strictly lower value than the returned fval",
                  fval=_f(fval), ymin=ymin)
    if not (res["fsd"] == 0):
        w.violate("C04", "fsd-nonzero", f"fsd is {res['fsd']!r} for a deterministic target")
    if res["target_type"] != "deterministic":
        w.violate("C04", "target-type", f"target_type is {res['target_type']!r} for a deterministic target")
    fv = b.iteration_history.get("fval")
    if fv is not None:
        vals = [float(v) for v in fv if v is not None]
        if any(b2 > a2 for a2, b2 in zip(vals, vals[1:])):
            w.violate("C04", "incumbent-increased", "recorded incumbent value increased between iterations", vals=vals[:12])


def _c05(w, b, res, valid):
    opts = b.options
    nfs = int(opts["noise_final_samples"])
    its = int(res["iterations"])
    x = np.asarray(res["x"], float).reshape(-1)
    specified = bool(opts["specify_target_noise"])
    expect_type = "stochastic (specified noise)" if specified else "stochastic"
    if res["target_type"] != expect_type:
        w.violate("C05", "target-type", f"target_type {res['target_type']!r}, expected {expect_type!r}")
    n_final = sum(1 for c in valid if c["phase"] == "final")
    if its <= 0:
        # no completed iteration: no final sampling by design
        w.probe("c05_no_iteration")
        if n_final:
            w.violate("C05", "final-samples-without-iteration", "final samples taken although no iteration completed")
        return
    if nfs <= 0:
        w.probe("c05_nfs0")
        if n_final:
            w.violate("C05", "final-samples-unexpected", "final samples taken although none are configured")
        if res["yval_vec"] is not None:
            w.violate("C05", "yval-vec-unexpected", "yval_vec present although no final samples are configured")
        return
    w.probe("c05_final_checked")
    tail = valid[-nfs:]
    if n_final != nfs or any(c["phase"] != "final" for c in tail):
        w.violate("C05", "final-count", f"{n_final} final-phase calls, {nfs} configured")
        return
    if not all(np.array_equal(c["x"], x) for c in tail):
        w.violate("C05", "final-not-at-x", "the last noise_final_samples calls are not at the returned x", x=x, last=tail[-1]["x"])
        return
    earlier = [c for c in valid[:-nfs] if np.array_equal(c["x"], x)]
    if not earlier:
        w.violate("C05", "x-not-evaluated-earlier", "returned x was not evaluated before the final sampling", x=x)
    yv = res["yval_vec"]
    if yv is None:
        w.violate("C05", "yval-vec-missing", "yval_vec is None although final samples were taken")
        return
    yv = np.asarray(yv, float).reshape(-1)
    fresh = np.array([c["y"] for c in tail])
    if nfs > 1:
        if yv.shape != fresh.shape or not np.array_equal(yv, fresh):
            w.violate("C05", "yval-vec-not-fresh", "yval_vec is not the fresh observations at x", yv=yv, fresh=fresh)
    else:
        w.probe("c05_single_sample")
        if yv.size != 2 or yv[0] != fresh[0]:
            w.violate("C05", "yval-vec-not-fresh", "yval_vec[0] is not the fresh observation at x", yv=yv, fresh=fresh)
        elif earlier:
            ys = [c["y"] for c in earlier]
            ok = any(yv[1] == v for v in ys)
            if not ok and specified:
                ok = min(ys) - 1e-12 <= yv[1] <= max(ys) + 1e-12
            if not ok:
                w.violate("C05", "yval-supplement", "the supplementary entry of yval_vec is not an earlier observation at x",
                          yv=yv, earlier=ys[:8])
    fval = _f(res["fval"])
    if not np.isclose(fval, float(np.mean(yv)), rtol=1e-12, atol=1e-300):
        w.violate("C05", "fval-not-mean", "fval is not the mean of yval_vec", fval=fval, mean=float(np.mean(yv)))
    fsd = _f(res["fsd"])
    se0 = float(np.std(yv) / np.sqrt(yv.size))
    se1 = float(np.std(yv, ddof=1) / np.sqrt(yv.size)) if yv.size > 1 else se0
    if not (np.isclose(fsd, se0, rtol=1e-12, atol=1e-300) or np.isclose(fsd, se1, rtol=1e-12, atol=1e-300)):
        w.violate("C05", "fsd-not-sem", "fsd is not the standard error of yval_vec", fsd=fsd, sem=se0)
    if specified:
        sv = res["ysd_vec"]
        if sv is None:
            w.violate("C05", "ysd-vec-missing", "ysd_vec is None under specified noise")
        else:
            sv = np.asarray(sv, float).reshape(-1)
            sfresh = np.array([c["sd"] for c in tail])
            if nfs > 1:
                if sv.shape != sfresh.shape or not np.array_equal(sv, sfresh):
                    w.violate("C05", "ysd-vec-not-reported", "ysd_vec is not the SDs reported for the final observations")
            else:
                if sv.size != 2 or sv[0] != sfresh[0]:
                    w.violate("C05", "ysd-vec-not-reported", "ysd_vec[0] is not the SD reported for the final observation")
                elif earlier:
                    sds = [c["sd"] for c in earlier]
                    # the SD of the record at x: a reported SD, or the combined SD of the merged record
                    tau = sum(1.0 / s ** 2 for s in sds)
                    comb = 1.0 / np.sqrt(tau)
                    partial = []
                    t = 0.0
                    for s in sds:
                        t += 1.0 / s ** 2
                        partial.append(1.0 / np.sqrt(t))
                    ok = any(np.isclose(sv[1], s, rtol=1e-9) for s in sds + partial + [comb])
                    if not ok:
                        w.violate("C05", "ysd-supplement", "the supplementary SD is not an SD observed/combined at x",
                                  sv=sv, sds=sds[:8])
    else:
        if res["ysd_vec"] is not None:
            w.violate("C05", "ysd-vec-unexpected", "ysd_vec present although noise is not specified")


def _c05_detection(w, b, res, valid):
    o0 = w.opts0
    # noise handling not requested: unset, or explicitly False (neither documents "never test for noise")
    if o0["uncertainty_handling"] not in (None, False) or o0["specify_target_noise"]:
        return
    if len(valid) < 2:
        return
    a, c = valid[0], valid[1]
    lvl = int(b.optim_state["uncertainty_handling_level"])
    if not np.array_equal(a["x"], c["x"]):
        # no second evaluation at the starting point: unobservable for a deterministic target, but a
        # stochastic one (the simulator knows its noise) must not end up treated as deterministic
        sigma = float((w.scn.get("noise") or {}).get("sigma", 0.0) or 0.0)
        if w.noise_mode != "none" and sigma > 0 and lvl == 0:
            w.violate("C05", "noise-not-detected", "a stochastic target was never evaluated twice at the starting point and is treated as deterministic",
                      sigma=sigma)
        return
    diff = abs(a["y"] - c["y"])
    if diff > o0["tol_noise"] and lvl == 0:
        w.violate("C05", "noise-not-detected", "two evaluations at the start differ by more than tol_noise but the target is treated as deterministic", diff=diff)
    if diff == 0 and lvl != 0:
        w.violate("C05", "noise-false-positive", "identical evaluations at the start but the target is treated as stochastic")
    w.probe("noise_test_run")


def _c12_run(w, b, valid):
    """Run-level log vs call log."""
    fl = b.function_logger
    n = fl.Xn + 1
    if fl.func_count != len(valid):
        w.violate("C12", "run-func-count", f"logger func_count {fl.func_count} != valid calls {len(valid)}")
    total_obs = float(np.sum(fl.n_evals[:n]))
    # every valid call is either recorded (new row / merged) or counted on its record
    if total_obs != len(valid):
        # calls made with record=False at a point with no record are not counted anywhere (allowed: none exist in BADS)
        w.violate("C12", "run-obs-count", f"sum of per-record observation counts {total_obs} != number of valid calls {len(valid)}")
    # identity of a logged point = its internal coordinates (the log's own key); two internal
    # points one ulp apart can map to the same original-space point and are separate records
    byx = {}
    for c in valid:
        key = (c["u"] + 0.0).tobytes() if c.get("u") is not None else c["x"].tobytes()   # +0.0: -0.0 and 0.0 are the same point
        byx.setdefault(key, []).append(c)
    level = fl.uncertainty_handling_level
    for i in range(n):
        obs = byx.get(np.ascontiguousarray(fl.X[i] + 0.0).tobytes())
        if obs and not all(np.array_equal(c["x"], fl.X_orig[i]) for c in obs):
            w.violate("C12", "run-xorig", "a record's original-space point is not the point the target received for it", i=i)
            break
        if not obs:
            w.violate("C12", "run-row-not-called", "a log record's point was never passed to the target", i=i)
            break
        yi = float(fl.Y[i, 0])
        yo = float(fl.Y_orig[i, 0])
        ys = [c["y"] for c in obs]
        if not any(yo == v for v in ys):
            w.violate("C12", "run-yorig", "a record's original value is not a value observed at its point", i=i, y=yo, obs=ys[:6])
            break
        if level < 2:
            if not any(yi == v for v in ys):
                w.violate("C12", "run-y", "a record's value is not a value observed at its point", i=i, y=yi, obs=ys[:6])
                break
        else:
            rec_obs = [c for c in obs if c["phase"] != "final"]
            if int(fl.n_evals[i, 0]) != len(obs):
                w.violate("C12", "run-nevals", "a record's observation count differs from the number of calls at its point",
                          i=i, n_evals=int(fl.n_evals[i, 0]), calls=len(obs))
                break
            if rec_obs:
                tau = np.array([1.0 / c["sd"] ** 2 for c in rec_obs])
                yy = np.array([c["y"] for c in rec_obs])
                mean = float(np.sum(tau * yy) / np.sum(tau))
                sdc = float(1.0 / np.sqrt(np.sum(tau)))
                if not (np.isclose(yi, mean, rtol=1e-9, atol=1e-12) and np.isclose(float(fl.S[i, 0]), sdc, rtol=1e-9)):
                    w.violate("C12", "run-merge", "a record is not the precision-weighted mean / combined SD of the observations recorded at its point",
                              i=i, y=yi, mean=mean, s=float(fl.S[i, 0]), sdc=sdc, n=len(rec_obs))
                    break
    if level == 2 and n > 0:
        rows = {np.ascontiguousarray(fl.X[i]).tobytes() for i in range(n)}
        if len(rows) != n:
            w.violate("C12", "run-duplicate-rows", "specified noise: the log holds two records for the same point")


def _c13_hist(w, b, res):
    ms = b.iteration_history.get("mesh_size")
    ss = b.iteration_history.get("search_mesh_size")
    if ms is not None and ss is not None:
        for i, (m, s) in enumerate(zip(ms, ss)):
            if m is None or s is None:
                continue
            if s > m:
                w.violate("C13", "search-mesh-above-poll-mesh", "recorded search mesh exceeds the poll mesh", i=i, m=float(m), s=float(s))
                break
            if m > 1 or m <= 0 or np.log2(m) != np.round(np.log2(m)):
                w.violate("C13", "mesh-size-not-power", "recorded mesh size is not a power of two <= 1", i=i, m=float(m))
                break
    if "tol_mesh" in (res["message"] or ""):
        if not res["mesh_size"] < b.optim_state["tol_mesh"]:
            w.violate("C13", "tolmesh-message-false", "run reported as stopped by tol_mesh but mesh_size is not below it",
                      mesh=_f(res["mesh_size"]))


def _c19(w, b, res, valid, level, scn):
    ih = b.iteration_history
    xs, ys, fcs = ih.get("x"), ih.get("yval"), ih.get("func_count")
    byx = {}
    for c in valid:
        byx.setdefault(c["x"].tobytes(), []).append(c)
    xr = np.asarray(res["x"], float).reshape(-1)
    specified = bool(b.options["specify_target_noise"])
    n_it = 0 if xs is None else len(xs)
    is_iterate = False
    for i in range(n_it):
        if xs[i] is None:
            continue
        xi = np.asarray(xs[i], float).reshape(-1)
        obs = byx.get(np.ascontiguousarray(xi).tobytes())
        if not obs:
            w.violate("C19", "hist-x-not-evaluated", "a recorded iterate was never evaluated", i=i, x=xi)
            continue
        if np.array_equal(xi, xr):
            is_iterate = True
        yv = ys[i]
        if yv is not None:
            yv = float(yv)
            vals = [c["y"] for c in obs]
            if specified:
                ok = min(vals) - 1e-9 * (1 + abs(min(vals))) <= yv <= max(vals) + 1e-9 * (1 + abs(max(vals)))
            else:
                ok = any(yv == v for v in vals)
            if not ok:
                w.violate("C19", "hist-yval-not-observed", "a recorded observed value was not observed at the recorded point",
                          i=i, yval=yv, obs=vals[:8], x=xi)
    if fcs is not None:
        f = [int(v) for v in fcs if v is not None]
        if any(b2 < a2 for a2, b2 in zip(f, f[1:])):
            w.violate("C19", "hist-funccount-decreasing", "recorded func_count decreases", f=f[:20])
        if f and max(f) > int(res["func_count"]):
            w.violate("C19", "hist-funccount-above-final", "recorded func_count exceeds the final count")
    if n_it and not is_iterate:
        w.violate("C19", "result-x-not-iterate", "returned x is not one of the recorded iterates", x=xr)
    if level == 0 and n_it:
        last = np.asarray(xs[n_it - 1], float).reshape(-1)
        if not np.array_equal(last, xr):
            w.violate("C19", "result-x-not-last-iterate", "returned x is not the last recorded iterate (deterministic)")
        elif ys[n_it - 1] is not None and float(ys[n_it - 1]) != _f(res["fval"]):
            w.violate("C19", "result-fval-not-last", "returned fval differs from the last recorded value (deterministic)")
    # result fields vs problem and final state
    from pybads.bads.optimize_result import OptimizeResult
    documented = {"fun", "non_box_cons", "x0", "x", "fval", "fsd", "yval_vec", "ysd_vec", "mesh_size",
                  "func_count", "iterations", "message", "problem_type", "total_time", "overhead",
                  "random_seed", "version", "target_type"}
    keys = set(res.keys())
    rec_keys = sorted(keys)
    w.result_keys = rec_keys
    if not (documented <= keys <= set(OptimizeResult._keys)):
        w.violate("C19", "result-keys", "OptimizeResult does not expose its documented fields (or exposes undeclared ones)",
                  missing=sorted(documented - keys), undeclared=sorted(keys - set(OptimizeResult._keys)))
    for k in res.keys():
        try:
            a = getattr(res, k)
        except AttributeError:
            w.violate("C19", "result-attr", f"field {k} not readable as attribute")
            continue
        bb_ = res[k]
        if a is not bb_:
            w.violate("C19", "result-attr", f"field {k} differs between key and attribute access")
    try:
        res["bogus_key_"] = 1
        w.violate("C19", "result-unknown-key-accepted", "OptimizeResult accepted an unknown key")
    except ValueError:
        pass
    try:
        res.bogus_attr_
        w.violate("C19", "result-unknown-attr", "OptimizeResult returned a value for an unknown attribute")
    except AttributeError:
        pass
    if not np.array_equal(np.asarray(res["x0"], float).reshape(-1), np.asarray(b.x0, float).reshape(-1)):
        w.violate("C19", "result-x0", "result x0 differs from the optimiser's starting point")
    if scn.get("x0") is not None and scn.get("x0_class") in (None, "inside"):
        if not np.allclose(np.asarray(res["x0"], float).reshape(-1), np.asarray(scn["x0"], float), rtol=0, atol=0):
            w.violate("C19", "result-x0-problem", "result x0 differs from the supplied starting point", x0=np.asarray(res["x0"]))
    unb = np.all(np.isinf(w.lb)) and np.all(np.isinf(w.ub))
    exp_pt = "non-box constraints" if w.violation_fn is not None else ("unconstrained" if unb else "bound constraints")
    if res["problem_type"] != exp_pt:
        w.violate("C19", "result-problem-type", f"problem_type {res['problem_type']!r}, expected {exp_pt!r}")
    exp_tt = {0: "deterministic", 1: "stochastic", 2: "stochastic (specified noise)"}[level]
    if specified:
        exp_tt = "stochastic (specified noise)"
    if res["target_type"] != exp_tt:
        w.violate("C19", "result-target-type", f"target_type {res['target_type']!r}, expected {exp_tt!r}")
    seed = scn.get("options", {}).get("random_seed")
    if res["random_seed"] != (None if seed is None else int(seed)):
        w.violate("C19", "result-seed", f"random_seed {res['random_seed']!r}, supplied {seed!r}")
    if res["func_count"] != b.function_logger.func_count:
        w.violate("C19", "result-func-count", "result func_count differs from the logger's")
    if res["mesh_size"] != b.mesh_size:
        w.violate("C19", "result-mesh-size", "result mesh_size differs from the final mesh size")
    # copies: later use of the optimiser must not change the result
    snap = {k: copy.deepcopy(res[k]) for k in ("x", "x0", "fval", "fsd", "yval_vec", "ysd_vec", "func_count", "mesh_size", "message")}
    try:
        b.x[...] = -12345.0
        b.x0[...] = -12345.0
        b.u[...] = 7.0
        if isinstance(b.optim_state.get("yval_vec"), np.ndarray):
            b.optim_state["yval_vec"][...] = -1.0
        if isinstance(b.optim_state.get("ysd_vec"), np.ndarray):
            b.optim_state["ysd_vec"][...] = -1.0
        b.function_logger.func_count += 100
        b.mesh_size = 123.0
        b.optim_state["termination_msg"] = "mutated"
    except Exception:
        pass
    for k, v in snap.items():
        if not _eq(v, res[k]):
            w.violate("C19", "result-not-a-copy", f"result field {k} changed when the optimiser's state was modified afterwards")
