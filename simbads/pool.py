"""Fork-per-task executor.

Every task runs in a freshly forked child of a warm parent (numpy/scipy/gpyreg/
pybads imported, seams installed, nothing executed), so each run starts from a
pristine process state. Children are killed by PID on a wall timeout; a timeout
is reported as such (never as success).
"""
import faulthandler
import multiprocessing as mp
import os
import pickle
import signal
import sys
import time
import traceback
from multiprocessing.connection import wait

_CTX = mp.get_context("fork")


def _child(conn, fn, arg, timeout):
    try:
        faulthandler.dump_traceback_later(max(1.0, timeout - 2.0), exit=False, file=sys.stderr)
        try:
            res = ("ok", fn(arg))
        except BaseException as e:  # noqa
            res = ("error", {"type": type(e).__name__, "msg": str(e)[:2000],
                             "tb": traceback.format_exc()[-4000:]})
        faulthandler.cancel_dump_traceback_later()
        try:
            conn.send_bytes(pickle.dumps(res, protocol=4))
        except Exception as e:
            conn.send_bytes(pickle.dumps(("error", {"type": "PickleError", "msg": repr(e), "tb": ""}), protocol=4))
        conn.close()
    finally:
        os._exit(0)


def run_tasks(fn, args, workers=None, timeout=180.0, on_result=None, deadline=None):
    """Run fn(arg) for every arg, each in its own forked child.

    Returns list of (status, payload) aligned with args; status in
    {'ok','error','timeout','died','skipped'}. `deadline` (time.time() value):
    tasks not started by then are 'skipped'.
    """
    if workers is None:
        workers = int(os.environ.get("VERIF_WORKERS", "0")) or min(16, os.cpu_count() or 4)
    n = len(args)
    results = [None] * n
    active = {}   # conn -> (idx, proc, t0)
    nxt = 0
    sys.stdout.flush()
    sys.stderr.flush()
    while nxt < n or active:
        while nxt < n and len(active) < workers:
            if deadline is not None and time.time() > deadline:
                results[nxt] = ("skipped", None)
                nxt += 1
                continue
            pr, pw = _CTX.Pipe(duplex=False)
            p = _CTX.Process(target=_child, args=(pw, fn, args[nxt], timeout))
            p.daemon = True
            p.start()
            pw.close()
            active[pr] = (nxt, p, time.time())
            nxt += 1
        if not active:
            continue
        ready = wait(list(active.keys()), timeout=0.5)
        now = time.time()
        for c in ready:
            idx, p, t0 = active.pop(c)
            try:
                data = c.recv_bytes()
                results[idx] = pickle.loads(data)
            except (EOFError, OSError):
                results[idx] = ("died", {"exitcode": p.exitcode})
            c.close()
            p.join(5)
            if on_result is not None:
                on_result(idx, results[idx])
        for c in list(active.keys()):
            idx, p, t0 = active[c]
            if now - t0 > timeout:
                try:
                    os.kill(p.pid, signal.SIGKILL)
                except ProcessLookupError:
                    pass
                p.join(5)
                c.close()
                del active[c]
                results[idx] = ("timeout", {"after_s": now - t0})
                if on_result is not None:
                    on_result(idx, results[idx])
    return results


def run_isolated(fn, arg, timeout=300.0):
    """Run fn(arg) in a freshly forked child of the *current* process and return its result
    (used by machines whose cases must not share process state). Raises on failure."""
    r, w = os.pipe()
    pid = os.fork()
    if pid == 0:
        try:
            os.close(r)
            try:
                res = ("ok", fn(arg))
            except BaseException as e:  # noqa
                res = ("error", {"type": type(e).__name__, "msg": str(e)[:1000], "tb": traceback.format_exc()[-2000:]})
            data = pickle.dumps(res, protocol=4)
            with os.fdopen(w, "wb") as f:
                f.write(data)
        finally:
            os._exit(0)
    os.close(w)
    chunks = []
    t0 = time.time()
    import select
    with os.fdopen(r, "rb") as f:
        while True:
            rl, _, _ = select.select([f], [], [], 1.0)
            if rl:
                b = f.read1(1 << 20) if hasattr(f, "read1") else f.read()
                if not b:
                    break
                chunks.append(b)
            elif time.time() - t0 > timeout:
                try:
                    os.kill(pid, signal.SIGKILL)
                except ProcessLookupError:
                    pass
                os.waitpid(pid, 0)
                raise TimeoutError("isolated task timed out")
    os.waitpid(pid, 0)
    if not chunks:
        raise RuntimeError("isolated task died")
    st, payload = pickle.loads(b"".join(chunks))
    if st != "ok":
        raise RuntimeError(f"isolated task failed: {payload}")
    return payload
