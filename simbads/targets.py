"""Simulator-owned parties: target, noise model, constraint region.

Everything is built from an explicit JSON-able spec, so a scenario (and hence a
replay file) fully determines the environment. Targets are plain closures:
OptimizeResult deep-copies ``fun`` and closures are atomic for deepcopy.
"""
import math

import numpy as np


# --------------------------------------------------------------------------
# landscapes (noise-free part), all take a 1-D float array in ORIGINAL coords
# --------------------------------------------------------------------------

def _rotation(D, rot_seed):
    if D == 1 or rot_seed is None:
        return np.eye(D)
    rs = np.random.RandomState(int(rot_seed) % (2**31))
    q, r = np.linalg.qr(rs.standard_normal((D, D)))
    return q * np.sign(np.diag(r))


def make_landscape(spec, D):
    """`fmul` (optional): multiplies every value - the magnitude of the target (1e-24 .. 1e12) is a
    swarm dimension of its own; the minimiser and the ordering of values are unchanged."""
    mul = spec.get("fmul")
    if mul not in (None, 1, 1.0):
        inner = make_landscape({k: v for k, v in spec.items() if k != "fmul"}, D)
        mul = float(mul)

        def f(x):
            return mul * inner(x)
        if hasattr(inner, "_adv_state"):
            f._adv_state = inner._adv_state
        return f
    fam = spec["family"]
    if fam == "quad":
        c = np.asarray(spec["c"], dtype=float)
        ev = np.asarray(spec["ev"], dtype=float)
        R = _rotation(D, spec.get("rot_seed"))
        A = R @ np.diag(ev) @ R.T
        off = float(spec.get("offset", 0.0))

        def f(x):
            d = x - c
            return float(d @ A @ d) + off
        return f
    if fam == "abs":
        c = np.asarray(spec["c"], dtype=float)
        w = np.asarray(spec.get("w", [1.0] * D), dtype=float)

        def f(x):
            return float(np.sum(w * np.abs(x - c)))
        return f
    if fam == "plateau":
        # piecewise constant bowl: many exact ties
        c = np.asarray(spec["c"], dtype=float)
        step = float(spec.get("step", 0.5))

        def f(x):
            return float(math.floor(float(np.sum((x - c) ** 2)) / step) * step)
        return f
    if fam == "const":
        v = float(spec.get("value", 1.0))

        def f(x):
            return v
        return f
    if fam == "logquad":
        c = np.asarray(spec["c"], dtype=float)  # positive
        w = np.asarray(spec.get("w", [1.0] * D), dtype=float)

        def f(x):
            return float(np.sum(w * (np.log(np.maximum(x, 1e-300)) - np.log(c)) ** 2))
        return f
    if fam == "rosen":
        def f(x):
            if len(x) == 1:
                return float((1 - x[0]) ** 2)
            return float(np.sum(100.0 * (x[1:] - x[:-1] ** 2) ** 2 + (1 - x[:-1]) ** 2))
        return f
    if fam == "linear":
        # pushes toward a face/corner: optimum on the boundary
        g = np.asarray(spec["g"], dtype=float)

        def f(x):
            return float(g @ x)
        return f
    if fam == "adversary":
        # scripted-outcome adversary: value of a *new* point is best_so_far - delta,
        # delta being the next symbol of the script; memoised so it is a function.
        script = list(spec["script"])
        deltas = {"G": float(spec.get("big", 10.0)), "g": float(spec.get("tiny", 1e-5)),
                  "m": float(spec.get("medium", 2e-3)), "t": 0.0, "l": -float(spec.get("loss", 1.0))}
        state = {"memo": {}, "best": float(spec.get("start", 100.0)), "i": 0}
        cyc = bool(spec.get("cycle", True))

        def f(x):
            k = x.tobytes()
            m = state["memo"]
            if k in m:
                return m[k]
            if not m:
                v = state["best"]
            else:
                i = state["i"]
                if i >= len(script):
                    sym = script[i % len(script)] if (cyc and script) else "l"
                else:
                    sym = script[i]
                state["i"] = i + 1
                v = state["best"] - deltas[sym]
            if v < state["best"]:
                state["best"] = v
            m[k] = v
            return v
        f._adv_state = state
        return f
    raise ValueError(f"unknown landscape family {fam!r}")


# --------------------------------------------------------------------------
# noise
# --------------------------------------------------------------------------

def make_noise(spec, D):
    """Returns (sample(x, ytrue) -> (yobs, sd_reported or None))."""
    mode = (spec or {}).get("mode", "none")
    if mode == "none":
        return lambda x, y: (y, None)
    sigma = float(spec.get("sigma", 1.0))
    if spec.get("rng", "private") == "global":
        draw = lambda: float(np.random.standard_normal())
    else:
        rs = np.random.RandomState(int(spec.get("seed", 0)) % (2**31))
        draw = lambda: float(rs.standard_normal())
    if mode == "homo":
        return lambda x, y: (y + sigma * draw(), None)
    if mode == "hetero":
        het = float(spec.get("het", 0.5))
        c = np.asarray(spec.get("c", [0.0] * D), dtype=float)
        sc = float(spec.get("scale", 1.0))

        def s(x, y):
            sd = sigma * (1.0 + het * min(10.0, float(np.sqrt(np.sum(((x - c) / sc) ** 2)))))
            return (y + sd * draw(), sd)
        return s
    raise ValueError(f"unknown noise mode {mode!r}")


# --------------------------------------------------------------------------
# constraint regions: violation(x) > 0 means infeasible
# evaluated row by row in pure float arithmetic so a batch call and a single
# call agree bit for bit
# --------------------------------------------------------------------------

def make_violation(spec, D):
    kind = spec["kind"]
    if kind == "ball":
        c = [float(v) for v in spec["c"]]
        r2 = float(spec["r"]) ** 2

        def v(x):
            s = 0.0
            for i in range(D):
                s += (float(x[i]) - c[i]) ** 2
            return s - r2
        return v
    if kind == "halfspace":
        a = [float(v) for v in spec["a"]]
        b = float(spec["b"])

        def v(x):
            s = 0.0
            for i in range(D):
                s += a[i] * float(x[i])
            return s - b
        return v
    if kind == "slab":
        a = [float(v) for v in spec["a"]]
        b = float(spec["b"])
        w = float(spec["w"])

        def v(x):
            s = 0.0
            for i in range(D):
                s += a[i] * float(x[i])
            return abs(s - b) - w
        return v
    if kind == "annulus":
        c = [float(v) for v in spec["c"]]
        r1 = float(spec["r1"]) ** 2
        r2 = float(spec["r2"]) ** 2

        def v(x):
            s = 0.0
            for i in range(D):
                s += (float(x[i]) - c[i]) ** 2
            return max(r1 - s, s - r2)
        return v
    if kind == "union":
        parts = [make_violation(p, D) for p in spec["parts"]]

        def v(x):
            return min(p(x) for p in parts)
        return v
    if kind == "all":
        parts = [make_violation(p, D) for p in spec["parts"]]

        def v(x):
            return max(p(x) for p in parts)
        return v
    raise ValueError(f"unknown constraint kind {kind!r}")
