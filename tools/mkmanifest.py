import json, subprocess
hook = subprocess.run(["git","-C","/repo","log","--format=%h %s"],capture_output=True,text=True).stdout.splitlines()
hook_commits=[l.split()[0] for l in hook if "verif hook" in l]
T = {
 "C01": ("exploration","seeded swarm of full simulated runs (all bound geometries incl. log/mixed/unbounded/tight, optimum outside the box, all noise modes, constraints, GP fit/prediction faults in a quarter of runs); every target call, every constraint-function row, the result and every logged point judged exactly", "6.C01"),
 "C02": ("exploration","seeded swarm of constrained runs (ball/half-space/slab/annulus/union/tiny/pinhole regions x log transforms x noise modes; feasible, near-boundary and infeasible starting points); every target call judged by the region spec itself, constructor rejections checked for zero calls", "6.C02"),
 "C03": ("exploration","bounded liveness: seeded runs with tiny-to-default budgets, max_iter, tol_mesh, scripted-outcome adversary targets, pinhole constraints and scripted search-outcome gates at the constraint seam; independent call counter, budget precondition measured, poll-step count, online non-progress bound via the loop hook, termination message re-derived from the recorded history; a wall timeout is itself a violation", "6.C03"),
 "C04": ("exploration","seeded deterministic runs (smooth, |x|, plateaus with ties, constant, boundary optimum, adversary); result compared with the complete call log", "6.C04"),
 "C05": ("exploration","seeded noisy runs (auto-detected, declared, specified heteroskedastic noise; noise_final_samples 0/1/several); tail of the call log vs x, yval_vec, fval, fsd, ysd_vec; noise-detection clause on the first two calls", "6.C05"),
 "C06": ("exploration","fault-free bounded-progress panels: seeded random rotated quadratics with default options (the property's family, the same family plus constant offsets up to 1e5, and warm starts at the minimiser); population thresholds of the property plus never-worse-than-start per run", "6.C06, 15.8"),
 "C07": ("exploration","exploration over process histories: each seeded scenario runs pristine, after a generated history (other optimisations, RNG consumption/reseeding, seterr, logger level, other constructions, ops between construction and run; in 30% of cases the run under test and the earlier runs also suffer injected GP-fit failures), under another simulated clock schedule and in a fresh interpreter with another PYTHONHASHSEED; call/result digests must be identical", "6.C07"),
 "C09": ("exploration","widest swarm (all modes x constraints x transforms x extreme knobs x hostile environments) plus non-finite GP predictions at the incumbent, single fit faults and clock faults; any exception escaping optimize()/constructor (other than ValueError for an invalid definition) is a violation classed by type and innermost pybads frame", "6.C09"),
 "C10": ("fault_enumeration","fault enumeration over target call indices: fault-free base runs in all noise modes give the call count and a phase label per call; re-runs place one fault (7 exception types, 10 invalid values, 4 bad pair forms, 8 bad SDs) at chosen logical positions (quick: >=1 per phase; thorough: every index)", "6.C10"),
 "C12": ("exploration","log machine: seeded operation histories on a real FunctionLogger (new/repeat/partially coinciding points, record on/off, add, failing calls, filter calls; cache sizes 1-8, noise levels 0/1/2, four transform kinds) compared field by field with a reference model after every operation; plus the logs of full runs vs the call log", "6.C12"),
 "C13": ("exploration","per-poll state-machine invariant: reference mesh rule recomputed from incumbent estimate before/after each poll, forcing value and recorded history; integrality/cap at every loop end; mesh unchanged between polls; recorded history and tol_mesh message", "6.C13"),
 "C14": ("exploration","generator workload: poll_mads_2n under a scheduler-owned enumerable random source (measured coverage of the finite choice space per (D, ratio)); plus every poll step of full runs (incl. a noisy sub-population where the incumbent is switched back to earlier iterates) matched against the basis actually generated and the incumbent at that moment", "6.C14"),
 "C15": ("exploration","every local GP fit, incremental add and acquisition call of seeded runs in all noise modes: training pairs vs the log (noise as variance), nearest-neighbour/order/size against the metric at entry, LCB value recomputed with an independent prediction", "6.C15"),
 "C16": ("fault_enumeration","fault enumeration over GP.fit invocation indices and posterior updates of base runs (deterministic, declared, specified noise): single faults, bursts of 2-4, scattered plans, failing at entry or mid-fit; run must complete with C01/C02/C03(a-c)/C04 monitors silent", "6.C16"),
 "C17": ("exploration","every candidate-filter call of seeded runs (optimum on/outside the boundary emphasised) plus filter operations of the log machine on adversarial log states and box faces; output judged clause by clause; every evaluated point must be a row of the set its filter handed on; repeat evaluations attributed to the filter or not", "6.C17, 15.8"),
 "C18": ("exploration","every evolution-strategy call: returned value vs the minimum of all acquisition values computed in that call, candidates inside the mesh-rounded box and feasible, selection masks in range, hedge probabilities, <=1 evaluation per search step; population sizes 2-4096 and pruning constraints; non-finite surrogate predictions injected into a subset (or all) of a population in 30% of runs", "6.C18"),
 "C19": ("exploration","history/result of seeded runs in all noise modes vs the call log and final state (incl. mutation of optimiser state afterwards); container machine on IterationHistory/OptimizeResult (key and attribute reads, key and attribute writes) against a dict-of-lists model", "6.C19"),
 "C20": ("exploration","exploration over process histories: seeded sequences of construct/run/inspect/misspelt-construct on 1-4 instances (nested construction inside a target callback) against an independent evaluator of the option files; isolation and caller-object checks after every op", "6.C20"),
}
checks=[]
for pid,(cat,text,ref) in T.items():
    checks.append({
      "property_id":pid,
      "quick_cmd":f"./check {pid} quick",
      "thorough_cmd":f"./check {pid} thorough",
      "evidence_file":f"evidence/{pid}.json",
      "replay_cmd_template":"./check --replay {path}",
      "engine":"simbads",
      "level_claimed":{"category":cat,"text":text+". Held-on-everything-explored, not a proof.","design_ref":ref},
      "level_note":"trusted: the simulator stubs (target/constraint/clock), the monitors and reference models in /verif/simbads, numpy/scipy/gpyreg as installed in /venv; pybads itself runs as real code from /repo's working tree (PYBADS_ROOT)",
      "technique":"deterministic simulation with fault injection (seeded scenario search over simulated runs; online monitors + history oracles; minimised replay files)" if cat=="exploration" else "deterministic simulation with fault injection (fault enumeration over call/fit indices of replayable simulated runs)",
    })
m={"version":1,
 "setup_cmd":"./setup.sh",
 "hooks":{"guard":"PYBADS_VERIF","enable":"environment variable PYBADS_VERIF=1 set before pybads is imported (simbads/env.py and ./check do it); no rebuild needed, checks import pybads from /repo's working tree on every invocation",
          "baseline_off_cmd":"cd /repo && env -u PYBADS_VERIF /venv/bin/python -m pytest -ra -q -p no:cacheprovider --timeout=900 --continue-on-collection-errors",
          "source_commits":hook_commits,"add_only":True},
 "engines":[{"name":"simbads","path":"simbads","serves_properties":sorted(T),"kind_free_text":"deterministic simulation of pybads: seeded scenario generator, simulated target/constraint/clock, GP fault shims, online monitors at monkeypatched seams + one guarded loop-end hook, fork-per-run isolation, shrinking and replay"}],
 "checks":checks,
 "not_applicable":[
  {"property_id":"C08","reason":"constructor validation is a pure function of (x0, lb, ub, plb, pub): no schedule, clock, fault, interleaving or history can change the outcome, so it is not a simulation target (DESIGN.md 6.C08); deciding it means enumerating input cells, a different technique"},
  {"property_id":"C11","reason":"the variable transform is a pure numeric function of (bounds, point) with nothing to schedule or fault (DESIGN.md 6.C11)"}],
 "notes":"DESIGN.md section 15 is the implementation record (defects repaired, known findings, corrected false alarms, which independently seeded changes each check catches). exit codes: 0 held (possibly with KNOWN-FINDING lines), 1 VIOLATION, 2 harness error. VERIF_SEED selects the seed; VERIF_WORKERS the parallelism. Known findings: KNOWN_FINDINGS.txt."}
json.dump(m,open("/verif/MANIFEST.json","w"),indent=1)
import jsonschema
jsonschema.validate(m,json.load(open("/root/.vp/MANIFEST.schema.json")))
print("manifest ok", len(checks), hook_commits)
