"""Re-run, for every stored seeded change, the check(s) recorded as catching it (quick tier unless recorded otherwise)
and report whether it is still caught. usage: python tools/seeded_regress.py [name-substr ...]"""
import glob, json, os, shutil, subprocess, sys, tempfile, time
VERIF = os.path.dirname(os.path.dirname(os.path.abspath(__file__)))
flt = sys.argv[1:]
res = []
for d in sorted(glob.glob(os.path.join(VERIF, "seeded", "*"))):
    name = os.path.basename(d)
    if flt and not any(f in name for f in flt):
        continue
    meta = json.load(open(os.path.join(d, "meta.json")))
    checks = (meta.get("confirmed_by_verifier") or {}).get("checks", {})
    want = [(c, v.get("tier", "quick")) for c, v in checks.items() if v.get("exit") == 1]
    if not want:
        print("SKIP", name, "(no catching check recorded)"); continue
    want.sort(key=lambda t: t[1] != "quick")
    c, tier = want[0]
    tmp = tempfile.mkdtemp(prefix="sreg_", dir="/tmp"); root = os.path.join(tmp, "repo"); out = os.path.join(tmp, "out"); os.makedirs(out)
    try:
        subprocess.check_call(["git", "-C", "/repo", "worktree", "add", "-q", "--detach", root, "HEAD"])
        r = subprocess.run(["git", "-C", root, "apply", "--3way", os.path.join(d, "patch.diff")], capture_output=True, text=True)
        if r.returncode != 0:
            r = subprocess.run(["git", "-C", root, "apply", os.path.join(d, "patch.diff")], capture_output=True, text=True)
        if r.returncode != 0:
            print("NOAPPLY", name, r.stderr[:200]); res.append((name, c, "noapply")); continue
        t0 = time.time()
        e = dict(os.environ, PYBADS_ROOT=root, VERIF_OUT_DIR=out)
        rr = subprocess.run([os.path.join(VERIF, "check"), c, tier], capture_output=True, text=True, env=e, timeout=4 * 3600)
        ok = rr.returncode == 1 and "VIOLATION" in rr.stdout
        cls = [l.strip()[:120] for l in rr.stdout.splitlines() if l.strip().startswith("class=")]
        print("CAUGHT" if ok else "MISSED", name, c, tier, f"{time.time()-t0:.0f}s", cls[:1]); sys.stdout.flush()
        res.append((name, c, "caught" if ok else "missed"))
    finally:
        subprocess.run(["git", "-C", "/repo", "worktree", "remove", "--force", root], capture_output=True)
        shutil.rmtree(tmp, ignore_errors=True)
print(sum(1 for r in res if r[2] == "caught"), "/", len(res), "still caught")
