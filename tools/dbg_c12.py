import sys, json
sys.path.insert(0, "/verif")
from simbads import env
env.ensure_hashseed(); env.import_pybads()
from simbads import run, world
import numpy as np
world.install_seams()
d = json.load(open(sys.argv[1])); case = d["case"]
rec = run.run_scenario(case, keep_world=True)
w = rec["_world"]; fl = w.b.function_logger
print(rec["violations"])
i = 14
x = fl.X_orig[i]; print("row", i, x, "X internal", fl.X[i], fl.n_evals[i], fl.Y[i], fl.S[i])
for c in w.calls:
    if np.array_equal(c["x"], x): print("call", c["k"], c["phase"], c["u"], c["y"], c["sd"])
n = fl.Xn+1
for j in range(n):
    if np.array_equal(fl.X_orig[j], x): print("rows with same x_orig:", j, fl.X[j].tolist(), fl.n_evals[j])
