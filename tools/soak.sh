#!/bin/bash
# soak: quick checks at many seeds; prints only non-clean outcomes
# usage: tools/soak.sh <first seed> <last seed> [props...]
cd "$(dirname "$0")/.."
a=$1; b=$2; shift 2
props=${@:-C01 C02 C03 C04 C05 C06 C07 C09 C10 C12 C13 C14 C15 C16 C17 C18 C19 C20}
out=$(mktemp -d /tmp/soak_XXXX)
for s in $(seq $a $b); do
  for p in $props; do
    VERIF_SEED=$s VERIF_OUT_DIR=$out timeout 3000 ./check $p ${TIER:-quick} > $out/log.txt 2>&1
    rc=$?
    if [ $rc -ne 0 ]; then echo "== seed $s $p rc=$rc"; grep -E "VIOLATION|class=|HARNESS" $out/log.txt | cut -c1-400; mkdir -p soak_replays; cp $out/replays/*-$s.json soak_replays/ 2>/dev/null; fi
  done
  echo "seed $s done"
done
rm -rf $out
