import sys, json
sys.path.insert(0, "/verif")
from simbads import env
env.ensure_hashseed(); env.import_pybads()
from simbads import run, world
import numpy as np, gpyreg
world.install_seams()
GP = gpyreg.GP
op = GP.predict
seen = [0]
def predict(self, *a, **k):
    r = op(self, *a, **k)
    if seen[0] < 2 and not (np.all(np.isfinite(r[0])) and np.all(np.isfinite(r[1]))):
        seen[0] += 1
        print("NONFINITE predict: mu", np.ravel(r[0])[:3], "s2", np.ravel(r[1])[:3], "n", self.X.shape, "hyp", self.get_hyperparameters(as_array=True))
        print(" y", np.ravel(self.y)[:8], "s2", None if self.s2 is None else np.ravel(self.s2)[:4])
        print(" priors", {k: v for k, v in self.get_priors().items()})
        import traceback; traceback.print_stack(limit=6)
    return r
GP.predict = predict
d = json.load(open(sys.argv[1])); case = d["case"]
rec = run.run_scenario(case)
print(rec["outcome"], rec["n_calls"])
