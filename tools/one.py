import sys, os, json, time
sys.path.insert(0, "/verif")
from simbads import env
env.ensure_hashseed()
env.import_pybads()
from simbads import gen, pool, run, world, runlevel, harness
world.install_seams()
prop, tier, dg = sys.argv[1], sys.argv[2], sys.argv[3]
seed = harness.default_seed(tier)
cases = runlevel.make_cases(prop, tier, seed)
for c in cases:
    if harness.scn_digest(c) == dg:
        print(json.dumps(c, default=str))
        json.dump(c, open("/tmp/case.json", "w"))
        break
