import sys, json
sys.path.insert(0, "/verif")
from simbads import env
env.ensure_hashseed(); env.import_pybads()
from simbads import run, world, runlevel, harness, pool
world.install_seams()
cases=runlevel.make_cases("C03","quick",harness.default_seed("quick"))
sel=[s for s in cases if (s.get("cons") or {}).get("gate")]
print(len(sel))
res=pool.run_tasks(run.run_scenario, sel, timeout=300)
for s,(st,r) in zip(sel,res):
    g=s["cons"]["gate"]
    print(s["index"], s["D"], g["script"][:14], g["tail"], st, r["outcome"] if st=="ok" else r, r.get("n_calls"), r.get("n_searches"), r.get("n_polls"), r.get("loop_iters"), r.get("max_nonprog"), (r.get("result") or {}).get("message","")[-30:], r["probes"].get("gate_rejected_batch"))
