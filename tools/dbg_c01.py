import sys, json
sys.path.insert(0, "/verif")
from simbads import env
env.ensure_hashseed(); env.import_pybads()
from simbads import run, world, runlevel, harness, pool
world.install_seams()
cases=runlevel.make_cases("C01","quick",harness.default_seed("quick"))
sel=[s for s in cases if s.get("reuse_arrays") and s["geom"] in ("log","mixedlog")]
res=pool.run_tasks(run.run_scenario, sel, timeout=300)
for s,(st,r) in zip(sel,res):
    print(s["index"], s["geom"], s["plb"] is None, s["reuse_arrays"], st, r["outcome"] if st=="ok" else r, [ (v["prop"],v["cls"]) for v in (r["violations"] if st=="ok" else [])], (r.get("exc") or {}).get("msg","")[:100] if st=="ok" else "")
