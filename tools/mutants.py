"""Sensitivity self-test: apply small breaking edits to a scratch copy of /repo
and confirm that the quick check of the property prints a VIOLATION.

usage: python tools/mutants.py [name-substring ...]     (default: all)
Scratch copies live under /tmp and are removed afterwards."""
import json
import os
import shutil
import subprocess
import sys
import tempfile
import time

VERIF = os.path.dirname(os.path.dirname(os.path.abspath(__file__)))

B = "pybads/bads/bads.py"
GPT = "pybads/bads/gaussian_process_train.py"
CC = "pybads/function_logger/constraints_check.py"
FL = "pybads/function_logger/function_logger.py"
ES = "pybads/search/es_search.py"
HD = "pybads/search/search_hedge.py"
PM = "pybads/poll/poll_mads_2n.py"
VT = "pybads/variable_transformer/variables_transformer.py"
ACQ = "pybads/acquisition_functions/acq_fcn_lcb.py"
IH = "pybads/utils/iteration_history.py"
OR = "pybads/bads/optimize_result.py"
OPT = "pybads/bads/options.py"
SOB = "pybads/init_functions/init_sobol.py"

# (name, property, file, old, new)
MUTANTS = [
    ("c01-search-bounds-outward", "C01", B, "        lb_search[lb_search < lb] = (\n            lb_search[lb_search < lb] + self.optim_state[\"search_mesh_size\"]\n        )", "        lb_search[lb_search < lb] = (\n            lb_search[lb_search < lb] - self.optim_state[\"search_mesh_size\"]\n        )"),
    ("c01-poll-no-drop", "C01", CC, "        U_new = U[~idx].copy()\n", "        U_new = U.copy()\n"),
    ("c01-no-clamp-inverse", "C01", VT, "        x = np.minimum(\n            np.maximum(x, self.orig_lb), self.orig_ub\n        )  # Force to stay within bounds\n        x = x.reshape(input.shape)", "        x = x.reshape(input.shape)"),
    ("c02-no-constraint-filter", "C02", CC, "        idx = C <= 0\n", "        idx = C <= np.inf\n"),
    ("c02-no-x0-check", "C02", B, "            if non_box_cons(self.x0) > 0:", "            if False:"),
    ("c18-es-no-cons", "C18", ES, "                True,\n                non_box_cons,\n            )", "                True,\n                None,\n            )"),
    ("c03-no-poll-budget-guard", "C03", B, "            and self.function_logger.func_count < self.options[\"max_fun_evals\"]\n            and poll_count < self.D * 2", "            and poll_count < self.D * 2"),
    ("c03-no-final-reserve", "C03", B, "            self.options[\"max_fun_evals\"] = (\n                self.options[\"max_fun_evals\"]\n                - self.options[\"noise_final_samples\"]\n            )", "            pass"),
    ("c03-funccount-from-records", "C03", OR, "        self[\"func_count\"] = bads.function_logger.func_count\n", "        self[\"func_count\"] = bads.function_logger.Xn + 1\n"),
    ("c03-budget-off-by-one", "C03", B, "                self.function_logger.func_count\n                >= self.options[\"max_fun_evals\"]\n            ):\n                is_finished = True", "                self.function_logger.func_count\n                > self.options[\"max_fun_evals\"]\n            ):\n                is_finished = True"),
    ("c03-max-iter-off-by-one", "C03", B, "            if poll_iteration >= self.options[\"max_iter\"] - 1:", "            if poll_iteration >= self.options[\"max_iter\"]:"),
    ("c03-wrong-message", "C03", B, "            if self.optim_state[\"mesh_size\"] < self.optim_state[\"tol_mesh\"]:\n                is_finished = True", "            if self.optim_state[\"mesh_size\"] < 4 * self.optim_state[\"tol_mesh\"]:\n                is_finished = True"),
    ("c04-argmax-init", "C04", B, "                idx_yval = np.argmin(\n                    self.function_logger.Y[: self.function_logger.Xn + 1]\n                )", "                idx_yval = np.argmax(\n                    self.function_logger.Y[: self.function_logger.Xn + 1]\n                )"),
    ("c04-poll-best-last", "C04", B, "            if poll_improvement > poll_best_improvement:\n                u_poll_best = u_new.copy()", "            if poll_improvement > 0:\n                u_poll_best = u_new.copy()"),
    ("c04-search-needs-sufficient", "C04", B, "                search_improvement > 0\n                and self.options[\"sloppy_improvement\"]\n                or is_search_success", "                is_search_success"),
    ("c05-final-at-incumbent", "C05", B, "            self.u = self.iteration_history.get(\"u\")[min_q_beta_idx]\n            self.u_best = self.u.copy()", "            self.u_best = self.u.copy()"),
    ("c05-median", "C05", B, "                self.fval = np.mean(yval_vec).item()", "                self.fval = np.median(yval_vec).item()"),
    ("c05-noise-test-threshold", "C05", B, "            if np.abs(self.yval - yval_bis) > self.options[\"tol_noise\"]:", "            if np.abs(self.yval - yval_bis) > 0.05:"),
    ("c06-es-worst-first", "C06", ES, "            z_idx = np.argsort(z_candidates)", "            z_idx = np.argsort(-z_candidates)"),
    ("c14-poll-scale", "C14", B, "                    B_new * self.optim_state[\"mesh_size\"]\n                ) * gp.temporary_data[", "                    B_new * self.optim_state[\"mesh_size\"] * 1e-3\n                ) * gp.temporary_data["),
    ("c07-no-reseed-in-optimize", "C07", B, "        self.optim_state[\"random_seed\"] = self._init_random_seed_()\n        \n        # Evaluate starting point", "        self.optim_state[\"random_seed\"] = self._random_seed\n        \n        # Evaluate starting point"),
    ("c07-hedge-scores-shared", "C07", HD, "        self.g = np.zeros(self.n_funs)\n        self.g[0] = 10\n", "        if not hasattr(ESSearchHedge, '_g'):\n            ESSearchHedge._g = np.zeros(self.n_funs)\n            ESSearchHedge._g[0] = 10\n        self.g = ESSearchHedge._g\n"),
    ("c07-clock-in-decision", "C07", B, "        self.optim_state[\"search_count\"] += 1\n", "        self.optim_state[\"search_count\"] += 1\n        if int(timer_probe()) % 2 == 0:\n            np.random.random()\n"),
    ("c09-empty-es", "C09", ES, "            if u_new.shape[0] == 0:\n                # No feasible candidate survived the filter\n                if i == 0:\n                    return np.empty((0, nvars)), np.empty((0,))\n                break\n", ""),
    ("c09-yval-vec", "C09", OR, "            yval_vec = bads.optim_state.get(\"yval_vec\")\n", "            yval_vec = bads.optim_state[\"yval_vec\"]\n"),
    ("c10-swallow-target-error", "C10", B, "            y_search, f_sd_search, idx = self.function_logger(u_search)\n", "            try:\n                y_search, f_sd_search, idx = self.function_logger(u_search)\n            except Exception:\n                y_search, f_sd_search, idx = self.function_logger(u_search)\n"),
    ("c10-count-before-validation", "C10", FL, "            timer.start_timer(\"funtime\")\n            fun_res = self.fun(x_orig)", "            timer.start_timer(\"funtime\")\n            self.func_count += 1\n            fun_res = self.fun(x_orig)\n            self.func_count -= 1"),
    ("c10-nan-accepted", "C10", FL, "        if np.any(\n            not np.isscalar(fval_orig)\n            or not np.isfinite(fval_orig)", "        if np.any(\n            not np.isscalar(fval_orig)\n            or np.isposinf(fval_orig)"),
    ("c12-merge-wrong-record", "C12", FL, "idx = np.argwhere(duplicate_flag.all(axis=1))[0, 0]", "idx = np.argwhere(duplicate_flag)[0, 0]"),
    ("c12-growth-off-by-one", "C12", FL, "            if self.Xn > self.X_orig.shape[0] - 1:\n                self._expand_arrays()", "            if self.Xn > self.X_orig.shape[0] - 1:\n                self._expand_arrays()\n                self.n_evals[self.Xn - 1] += 0 if self.Xn % 5 else 1"),
    ("c12-norecord-first-dup", "C12", FL, "                last_idx = np.argwhere(duplicate_flag)[-1].item()", "                last_idx = np.argwhere(duplicate_flag)[0].item()"),
    ("c12-sd-combination", "C12", FL, "                    self.S[idx] = 1 / np.sqrt(tau_n + tau_1)", "                    self.S[idx] = 1 / np.sqrt(tau_n) + 1 / np.sqrt(tau_1)"),
    ("c13-plus-two", "C13", B, "                self.mesh_size_integer + 1, self.options[\"max_poll_grid_number\"]", "                self.mesh_size_integer + 2, self.options[\"max_poll_grid_number\"]"),
    ("c13-no-cap", "C13", B, "            self.mesh_size_integer = np.minimum(\n                self.mesh_size_integer + 1, self.options[\"max_poll_grid_number\"]\n            )", "            self.mesh_size_integer = self.mesh_size_integer + 1"),
    ("c13-accel-without-stall", "C13", B, "                if (\n                    self.f_q_historic_improvement < self.options[\"tol_fun\"]\n                ):  # or", "                if (\n                    True\n                ):  # or"),
    ("c14-drop-negative-half", "C14", PM, "    B_new = np.vstack((D, -D))", "    B_new = np.vstack((D, D))"),
    ("c14-singular", "C14", PM, "    D = np.transpose(rnd.permutation(D))", "    D = np.transpose(rnd.permutation(D))\n    if dim_x > 2 and n_max > 1 and D[0, 0] == 0:\n        D[0] = D[1]"),
    ("c15-descending-sort", "C15", GPT, "    sort_idx = np.argsort(dist)  # Ascending sort", "    sort_idx = np.argsort(-dist)  # Ascending sort"),
    ("c15-sd-not-squared", "C15", GPT, "        res_S = function_logger.S[sort_idx[0:ntrain]] ** 2", "        res_S = function_logger.S[sort_idx[0:ntrain]]"),
    ("c15-lcb-sign", "C15", ACQ, "    z = f_mu - sqrt_beta * f_s", "    z = f_mu + sqrt_beta * f_s"),
    ("c15-yorig", "C15", GPT, "    Y = function_logger.Y[0 : U_max_idx + 1].copy()", "    Y = function_logger.Y_orig[0 : U_max_idx + 1].copy()"),
    ("c16-no-except-refit", "C16", GPT, "            break\n        except np.linalg.LinAlgError:\n            # handle", "            break\n        except ZeroDivisionError:\n            # handle"),
    ("c16-s2-not-dropped", "C16", GPT, "                if s2 is not None and not np.isscalar(s2):\n                    s2 = s2[~idx_drop_out]\n", ""),
    ("c17-no-dedup-both", "C17", [CC, CC], ["    _, idx_sort = np.unique(U_new, axis=0, return_index=True)\n    U_new = U_new[np.sort(idx_sort), :]\n\n    # Remove previously", "        u1_idx = idx_sort[idx_sort < len(u1)]\n"], ["    # Remove previously", "        u1_idx = np.arange(len(u1))\n"]),
    ("c14-poll-projected", "C14", B, "                    self.function_logger,\n                    False,\n                    self.non_box_cons,", "                    self.function_logger,\n                    True,\n                    self.non_box_cons,"),
    ("c18-es-second-best", "C18", ES, "        return us[0], z[0]", "        return (us[1], z[1]) if len(z) > 1 else (us[0], z[0])"),
    ("c18-hedge-no-floor", "C18", HD, "        self.prob = self.prob * (1 - self.n_funs * self.gamma) + self.gamma", "        self.prob = self.prob * (1 - self.n_funs * self.gamma) + self.gamma * (self.count < 4)"),
    ("c18-double-eval", "C18", B, "            y_search, f_sd_search, idx = self.function_logger(u_search)\n", "            y_search, f_sd_search, idx = self.function_logger(u_search)\n            if self.function_logger.func_count % 9 == 0:\n                self.function_logger(u_search, record_duplicate_data=False)\n"),
    ("c19-best-u-typo", "C19", B, "                    self.u_best = self.u.copy()\n                    self.best_gp_hyp = self.iteration_history.get(\n                        \"gp_hyp_full\"\n                    )[idx_impr]", "                    self.best_u = self.u.copy()\n                    self.best_gp_hyp = self.iteration_history.get(\n                        \"gp_hyp_full\"\n                    )[idx_impr]"),
    ("c19-history-no-deepcopy", "C19", IH, "            self[key][iteration] = copy.deepcopy(value)", "            self[key][iteration] = value"),
    ("c19-result-no-copy", "C19", OR, "            dict.__setitem__(self, key, copy.deepcopy(val))", "            dict.__setitem__(self, key, val)"),
    ("c20-advanced-overwrites-user", "C20", OPT, "            if key not in self.get(\"useroptions\") and key != \"useroptions\":", "            if (key not in self.get(\"useroptions\") or key == \"tol_fun\") and key != \"useroptions\":"),
    ("c20-no-name-validation", "C20", B, "        self.options.validate_option_names([basic_path, advanced_path])\n\n        if self.options[\"stobads\"]", "        if self.options[\"stobads\"]"),
    ("c20-mutates-caller-x0", "C20", [B, B], ["            x0.copy(),\n            lower_bounds,", "            x0 = np.maximum((np.minimum(x0, UB_eff)), LB_eff)\n"], ["            x0,\n            lower_bounds,", "            np.clip(x0, LB_eff, UB_eff, out=x0)\n"]),
]


def apply(root, path, old, new):
    p = os.path.join(root, path)
    s = open(p).read()
    if s.count(old) != 1:
        raise RuntimeError(f"pattern occurs {s.count(old)} times in {path}")
    if "timer_probe()" in new:
        new = new.replace("timer_probe()", "__import__('pybads.utils.timer.timer', fromlist=['x']).time.time()")
    open(p, "w").write(s.replace(old, new))


def main(argv):
    flt = [a for a in argv if not a.startswith("-")]
    tier = "quick"
    results = []
    for name, prop, path, old, new in MUTANTS:
        if flt and not any(f in name for f in flt):
            continue
        tmp = tempfile.mkdtemp(prefix="mut_", dir="/tmp")
        root = os.path.join(tmp, "repo")
        out = os.path.join(tmp, "out")
        try:
            subprocess.check_call(["git", "-C", "/repo", "worktree", "add", "-q", "--detach", root, "HEAD"])
            # the scratch copy must carry uncommitted edits of /repo as well
            diff = subprocess.run(["git", "-C", "/repo", "diff", "HEAD"], capture_output=True, text=True).stdout
            if diff.strip():
                subprocess.run(["git", "-C", root, "apply"], input=diff, text=True, check=True)
            if isinstance(path, (list, tuple)):
                for p_, o_, n_ in zip(path, old, new):
                    apply(root, p_, o_, n_)
            else:
                apply(root, path, old, new)
            os.makedirs(out)
            t0 = time.time()
            env = dict(os.environ, PYBADS_ROOT=root, VERIF_OUT_DIR=out)
            r = subprocess.run([os.path.join(VERIF, "check"), prop, tier], capture_output=True, text=True, env=env, timeout=3600)
            viol = [l for l in r.stdout.splitlines() if l.startswith("VIOLATION")]
            cls = [l.strip() for l in r.stdout.splitlines() if l.strip().startswith("class=")]
            status = "CAUGHT" if (r.returncode == 1 and viol) else ("HARNESS" if r.returncode == 2 else "MISSED")
            replay_ok = None
            if status == "CAUGHT":
                path_r = viol[0].split("replay=", 1)[1].strip()
                rr = subprocess.run([os.path.join(VERIF, "check"), "--replay", path_r], capture_output=True, text=True, env=env, timeout=1800)
                replay_ok = (rr.returncode == 1)
            results.append(dict(name=name, prop=prop, status=status, exit=r.returncode, replay_reproduces=replay_ok,
                                classes=[c[:160] for c in cls[:4]], wall=round(time.time() - t0, 1)))
            print(f"{status:8s} {name:34s} {prop} exit={r.returncode} replay={replay_ok} {time.time()-t0:.0f}s  {cls[0][:110] if cls else r.stdout.strip().splitlines()[-1][:110] if r.stdout.strip() else r.stderr[-200:]}")
            sys.stdout.flush()
        except Exception as e:
            results.append(dict(name=name, prop=prop, status="ERROR", error=repr(e)))
            print("ERROR", name, repr(e))
        finally:
            subprocess.run(["git", "-C", "/repo", "worktree", "remove", "--force", root], capture_output=True)
            shutil.rmtree(tmp, ignore_errors=True)
    json.dump(results, open(os.path.join(VERIF, "tools", "mutants_last.json"), "w"), indent=1)
    missed = [r for r in results if r["status"] != "CAUGHT"]
    print(f"{len(results) - len(missed)}/{len(results)} caught")
    return 0 if not missed else 1


if __name__ == "__main__":
    sys.exit(main(sys.argv[1:]))
