import sys, json
sys.path.insert(0, "/verif")
from simbads import env
env.ensure_hashseed(); env.import_pybads()
from simbads import run, world
import numpy as np, gpyreg
world.install_seams()
import pybads.search.search_hedge as hd
GP = gpyreg.GP
op = GP.predict
flag=[0]
orig = hd.ESSearchHedge.update_hedge
def upd(self, *a):
    flag[0]=1
    try: return orig(self,*a)
    finally: flag[0]=0
hd.ESSearchHedge.update_hedge = upd
def predict(self, *a, **k):
    r = op(self, *a, **k)
    if flag[0]: print("predict in update_hedge ->", r, "n train", self.X.shape, "y", np.ravel(self.y)[:6], "hyp", self.get_hyperparameters(as_array=True))
    return r
GP.predict = predict
d = json.load(open(sys.argv[1])); case = d["case"]
print(case["target"], case["options"])
rec = run.run_scenario(case)
print(rec["outcome"])
