import sys, os, json, time, faulthandler
sys.path.insert(0, "/verif")
from simbads import env
env.ensure_hashseed()
env.import_pybads()
from simbads import run, world
world.install_seams()
case = json.load(open(sys.argv[1]))
if "case" in case and "property" in case: case = case["case"]
faulthandler.dump_traceback_later(float(sys.argv[2]) if len(sys.argv) > 2 else 60, exit=True)
t0=time.time()
rec = run.run_scenario(case)
print("outcome", rec["outcome"], "calls", rec["n_calls"], "polls", rec["n_polls"], "loop", rec["loop_iters"], "fits", rec["fit_calls"], "wall %.1f" % (time.time()-t0))
print("violations", [(v["prop"], v["cls"], v["msg"], v["detail"]) for v in rec["violations"]])
if rec.get("exc"): print(rec["exc"].get("tb") or rec["exc"])
if rec.get("result"): print(rec["result"])
for t in rec["tail"][-12:]: print(t)
