import sys; sys.path.insert(0,'/verif')
from simbads import env; env.ensure_hashseed(); env.import_pybads()
from simbads import containers
o=containers.run_batch((1,0,3000)); print(o['n'],o['ops'],len(o['shapes'])); 
for i,c,p in o['problems'][:5]: print(i,c['kind'],p[:2]); print(c)
