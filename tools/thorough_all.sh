#!/bin/bash
# run every thorough check once (output redirected away from evidence/), print summary lines
cd "$(dirname "$0")/.."
out=$(mktemp -d /tmp/thor_XXXX)
for p in ${@:-C10 C16 C02 C04 C13 C15 C17 C18 C19 C05 C07 C14 C06 C20 C12 C01 C03 C09}; do
  s=$(date +%s)
  VERIF_OUT_DIR=$out timeout 14000 ./check $p thorough > $out/log_$p.txt 2>&1
  rc=$?
  echo "== $p rc=$rc $(( $(date +%s) - s ))s"; grep -E "VIOLATION|class=|HARNESS|^\[" $out/log_$p.txt | cut -c1-400
  if [ $rc -ne 0 ]; then mkdir -p thorough_replays; cp $out/replays/$p-*.json thorough_replays/ 2>/dev/null; fi
done
