import sys, json
sys.path.insert(0, "/verif")
from simbads import env
env.ensure_hashseed(); env.import_pybads()
from simbads import run, world
import numpy as np
world.install_seams()
import pybads.search.search_hedge as hd
orig = hd.ESSearchHedge.update_hedge
def upd(self, u_search, fval_old, f, fs, gp, mesh_size):
    g0 = self.g.copy()
    r = orig(self, u_search, fval_old, f, fs, gp, mesh_size)
    if not np.all(np.isfinite(self.g)) or True:
        print("update_hedge fval_old=%r f=%r fs=%r mesh=%r phat=%r g0=%r g=%r" % (fval_old, f, fs, mesh_size, self.phat, g0, self.g))
    return r
hd.ESSearchHedge.update_hedge = upd
d = json.load(open(sys.argv[1])); case = d["case"]
rec = run.run_scenario(case)
print(rec["outcome"])
