import sys, json
sys.path.insert(0, "/verif")
from simbads import env
env.ensure_hashseed(); env.import_pybads()
from simbads import run, world
import numpy as np, gpyreg
world.install_seams()
import pybads.bads.bads as bb
o = bb.local_gp_fitting
def lgf(gp, cp, fl, options, optim_state, ih, refit):
    r = o(gp, cp, fl, options, optim_state, ih, refit)
    g = r[0]
    h = g.get_hyperparameters(as_array=True)
    print("LGF refit=%s n=%d y=%s hyp=%s poll_scale=%s len_scale=%s exit=%s" % (refit, g.X.shape[0], np.ravel(g.y)[:5], h, g.temporary_data.get("poll_scale"), g.temporary_data.get("len_scale"), r[1]))
    if not np.all(np.isfinite(h)):
        print("  priors:", g.get_priors()); print("  bounds:", g.get_bounds())
    return r
bb.local_gp_fitting = lgf
d = json.load(open(sys.argv[1])); case = d["case"]
rec = run.run_scenario(case)
print(rec["outcome"])
