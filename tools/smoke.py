import sys, os, json, time, collections
sys.path.insert(0, "/verif")
from simbads import env
env.ensure_hashseed()
env.import_pybads()
from simbads import gen, pool, run, world
world.install_seams()
seed = int(sys.argv[1]) if len(sys.argv) > 1 else 1
n = int(sys.argv[2]) if len(sys.argv) > 2 else 32
prof = json.loads(sys.argv[3]) if len(sys.argv) > 3 else None
scns = [gen.make_scenario(seed, prof, i) for i in range(n)]
t0 = time.time()
res = pool.run_tasks(run.run_scenario, scns, timeout=300)
dt = time.time() - t0
out = collections.Counter(); viol = collections.Counter(); exc = collections.Counter()
ex_examples = {}
for s, (st, r) in zip(scns, res):
    if st != "ok":
        out[st] += 1
        print("TASK", st, s["index"], (r or {}).get("type"), (r or {}).get("msg", "")[:300])
        if r and r.get("tb"): print(r["tb"][-1500:])
        continue
    out[r["outcome"]] += 1
    for v in r["violations"]:
        viol[(v["prop"], v["cls"])] += 1
        ex_examples.setdefault((v["prop"], v["cls"]), (s["index"], v["msg"], v["detail"]))
    if r.get("exc"):
        key = (r["outcome"], r["exc"]["type"], r["exc"]["frame"], r["exc"]["line"])
        exc[key] += 1
        ex_examples.setdefault(key, (s["index"], r["exc"]["msg"][:200]))
print("wall %.1fs" % dt, dict(out))
for k, c in sorted(viol.items()): print("VIOL", k, c, ex_examples[k])
for k, c in sorted(exc.items(), key=str): print("EXC", k, c, ex_examples[k])
