import sys, os, json
sys.path.insert(0, "/verif")
from simbads import env
env.ensure_hashseed()
env.import_pybads()
from simbads import runlevel, harness
prop, tier = sys.argv[1], sys.argv[2]
cases = runlevel.make_cases(prop, tier, harness.default_seed(tier))
import collections
c = collections.Counter((s.get("cons") or {}).get("gen_kind") for s in cases)
print(c)
for s in cases:
    if (s.get("cons") or {}).get("gen_kind") == sys.argv[3]:
        json.dump(s, open("/tmp/case.json", "w")); print(s["index"], s["geom"], s["D"], s["options"]); break
