"""Confirm an independently written breaking change and run the checks against it.

usage: python tools/seeded.py <name> <property> <out_dir_with patch.diff/demo.py/meta.json> [--tier quick|thorough] [--checks C03,C05]
Stores /verif/seeded/<name>/ (patch.diff, demo.py, meta.json) once confirmed."""
import json, os, shutil, subprocess, sys, tempfile, time

VERIF = os.path.dirname(os.path.dirname(os.path.abspath(__file__)))


def sh(cmd, **kw):
    return subprocess.run(cmd, capture_output=True, text=True, **kw)


def main():
    name, prop, src = sys.argv[1], sys.argv[2], sys.argv[3]
    tier = "quick"
    checks = [prop]
    skip_suite = "--skip-suite" in sys.argv
    for i, a in enumerate(sys.argv):
        if a == "--tier":
            tier = sys.argv[i + 1]
        if a == "--checks":
            checks = sys.argv[i + 1].split(",")
    tmp = tempfile.mkdtemp(prefix="seeded_", dir="/tmp")
    root = os.path.join(tmp, "repo")
    out = os.path.join(tmp, "out")
    os.makedirs(out)
    ran = {}
    try:
        subprocess.check_call(["git", "-C", "/repo", "worktree", "add", "-q", "--detach", root, "HEAD"])
        r = sh(["git", "-C", root, "apply", os.path.join(src, "patch.diff")])
        if r.returncode != 0:
            print("patch does not apply:", r.stderr)
            return 2
        ran["patch_applies_to"] = sh(["git", "-C", "/repo", "rev-parse", "--short", "HEAD"]).stdout.strip()
        env_off = {k: v for k, v in os.environ.items() if k != "PYBADS_VERIF"}
        if not skip_suite:
            t0 = time.time()
            r = sh(["/venv/bin/python", "-m", "pytest", "-q", "-p", "no:cacheprovider", "--timeout=900", "-n", "6"], cwd=root, env=env_off)
            tail = r.stdout.strip().splitlines()[-1] if r.stdout.strip() else r.stderr[-300:]
            ran["suite_with_change"] = tail
            print("suite with change:", tail, f"({time.time()-t0:.0f}s)")
            failed = [l for l in r.stdout.splitlines() if l.startswith("FAILED")]
            if r.returncode != 0 and not all("test_he_noisy_sphere_opt" in l for l in failed):
                print("existing suite fails with the change:", failed[:5])
                return 3
        d1 = sh(["/venv/bin/python", os.path.join(src, "demo.py"), root], env=env_off, timeout=900)
        d0 = sh(["/venv/bin/python", os.path.join(src, "demo.py"), "/repo"], env=env_off, timeout=900)
        ran["demo_exit_with_change"] = d1.returncode
        ran["demo_exit_without_change"] = d0.returncode
        print("demo with change exit", d1.returncode, "| without", d0.returncode)
        print("  demo says:", (d1.stdout.strip().splitlines() or [""])[-1][:200])
        if not (d1.returncode != 0 and d0.returncode == 0):
            print("demonstration does not discriminate")
            return 4
        caught = {}
        for c in checks:
            e = dict(os.environ, PYBADS_ROOT=root, VERIF_OUT_DIR=out)
            t0 = time.time()
            r = sh([os.path.join(VERIF, "check"), c, tier], env=e, timeout=4 * 3600)
            cls = [l.strip()[:200] for l in r.stdout.splitlines() if l.strip().startswith("class=")]
            viol = [l for l in r.stdout.splitlines() if l.startswith("VIOLATION")]
            rep_ok = None
            if r.returncode == 1 and viol:
                pth = viol[0].split("replay=", 1)[1].strip()
                rr = sh([os.path.join(VERIF, "check"), "--replay", pth], env=e, timeout=3600)
                rep_ok = rr.returncode == 1
            caught[c] = dict(exit=r.returncode, classes=cls[:5], replay_reproduces=rep_ok, wall_s=round(time.time() - t0), tier=tier)
            print(f"check {c} {tier}: exit={r.returncode} replay={rep_ok} {cls[:2]}")
        ran["checks"] = caught
        dst = os.path.join(VERIF, "seeded", name)
        os.makedirs(dst, exist_ok=True)
        shutil.copy(os.path.join(src, "patch.diff"), dst)
        shutil.copy(os.path.join(src, "demo.py"), dst)
        meta = {}
        mp = os.path.join(src, "meta.json")
        if os.path.exists(mp):
            try:
                meta = json.load(open(mp))
            except Exception:
                meta = {"raw": open(mp).read()}
        old = {}
        if os.path.exists(os.path.join(dst, "meta.json")):
            old = json.load(open(os.path.join(dst, "meta.json"))).get("confirmed_by_verifier", {})
        if old.get("checks"):
            merged = dict(old["checks"]); merged.update(ran["checks"]); ran["checks"] = merged
        meta["property"] = prop
        meta["confirmed_by_verifier"] = ran
        json.dump(meta, open(os.path.join(dst, "meta.json"), "w"), indent=1)
        return 0
    finally:
        sh(["git", "-C", "/repo", "worktree", "remove", "--force", root])
        shutil.rmtree(tmp, ignore_errors=True)


if __name__ == "__main__":
    sys.exit(main())
