import sys, json
sys.path.insert(0, "/verif")
from simbads import env
env.ensure_hashseed(); env.import_pybads()
from simbads import run, world
import numpy as np
world.install_seams()
d = json.load(open(sys.argv[1])); case = d["case"]; case["record_events"]=True
rec = run.run_scenario(case)
for v in rec["violations"]: print(v["prop"], v["cls"], v["seq"], v["msg"], v["detail"])
evs = rec["events"]
seqs = sorted({v["seq"] for v in rec["violations"]})
for s in seqs[:3]:
    for e in evs:
        if s-6 <= e[0] <= s+2: print(e)
    print('--')
print(rec.get("exc",{}).get("tb","")[-1500:])
