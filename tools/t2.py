import sys; sys.path.insert(0,'/verif')
from simbads import env; env.ensure_hashseed(); env.import_pybads()
import numpy as np, collections
import pybads.search.es_search as es
from simbads import world
bad=collections.Counter(); ex={}
for lamb in range(1,120):
    for mu in range(1,lamb+1):
        try:
            m=es.ESSearch._get_selection_idx_mask_(None, mu, lamb)
        except Exception as e:
            bad['raise:'+type(e).__name__]+=1; ex.setdefault('raise:'+type(e).__name__,(mu,lamb,str(e))); continue
        for cls,msg in world.check_selection_mask(None, m, mu, lamb):
            bad[cls]+=1; ex.setdefault(cls,(mu,lamb,msg,m[:10]))
print(bad); print(ex)
