#!/bin/bash
# MANIFEST.setup_cmd: offline, from files on disk only.
set -e
cd "$(dirname "$0")"
PY=/venv/bin/python
$PY -c "import hypothesis" 2>/dev/null || /venv/bin/pip install -q --no-index --find-links /opt/veriftools/wheels hypothesis
$PY -c "import jsonschema" 2>/dev/null || /venv/bin/pip install -q --no-index --find-links /opt/veriftools/wheels jsonschema
mkdir -p evidence replays
export PYTHONHASHSEED=0 PYTHONDONTWRITEBYTECODE=1
# imports pybads from /repo's working tree, checks the guarded hook is live, runs a determinism smoke test
$PY -m simbads.selftest determinism 16
